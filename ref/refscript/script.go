// Package refscript is an independent reference implementation of Bitcoin's
// script verification (Bitcoin Core's interpreter.cpp: EvalScript, VerifyScript,
// VerifyWitnessProgram, ExecuteWitnessScript and the three signature-hash
// algorithms), written from the consensus rules / BIPs 16, 65, 66, 112, 141,
// 143, 146, 147, 341, 342.  It shares no code with btcd's txscript.  Elliptic
// curve arithmetic (ECDSA/Schnorr verification of a 32-byte digest, x-only
// tweak check) is delegated to btcec — curve correctness is the subject of a
// different check — but every digest is computed here.
package refscript

// Opcodes (only the ones the interpreter needs by name).
const (
	OP_0         = 0x00
	OP_PUSHDATA1 = 0x4c
	OP_PUSHDATA2 = 0x4d
	OP_PUSHDATA4 = 0x4e
	OP_1NEGATE   = 0x4f
	OP_RESERVED  = 0x50
	OP_1         = 0x51
	OP_16        = 0x60

	OP_NOP      = 0x61
	OP_VER      = 0x62
	OP_IF       = 0x63
	OP_NOTIF    = 0x64
	OP_VERIF    = 0x65
	OP_VERNOTIF = 0x66
	OP_ELSE     = 0x67
	OP_ENDIF    = 0x68
	OP_VERIFY   = 0x69
	OP_RETURN   = 0x6a

	OP_TOALTSTACK   = 0x6b
	OP_FROMALTSTACK = 0x6c
	OP_2DROP        = 0x6d
	OP_2DUP         = 0x6e
	OP_3DUP         = 0x6f
	OP_2OVER        = 0x70
	OP_2ROT         = 0x71
	OP_2SWAP        = 0x72
	OP_IFDUP        = 0x73
	OP_DEPTH        = 0x74
	OP_DROP         = 0x75
	OP_DUP          = 0x76
	OP_NIP          = 0x77
	OP_OVER         = 0x78
	OP_PICK         = 0x79
	OP_ROLL         = 0x7a
	OP_ROT          = 0x7b
	OP_SWAP         = 0x7c
	OP_TUCK         = 0x7d

	OP_CAT    = 0x7e
	OP_SUBSTR = 0x7f
	OP_LEFT   = 0x80
	OP_RIGHT  = 0x81
	OP_SIZE   = 0x82

	OP_INVERT      = 0x83
	OP_AND         = 0x84
	OP_OR          = 0x85
	OP_XOR         = 0x86
	OP_EQUAL       = 0x87
	OP_EQUALVERIFY = 0x88
	OP_RESERVED1   = 0x89
	OP_RESERVED2   = 0x8a

	OP_1ADD      = 0x8b
	OP_1SUB      = 0x8c
	OP_2MUL      = 0x8d
	OP_2DIV      = 0x8e
	OP_NEGATE    = 0x8f
	OP_ABS       = 0x90
	OP_NOT       = 0x91
	OP_0NOTEQUAL = 0x92

	OP_ADD    = 0x93
	OP_SUB    = 0x94
	OP_MUL    = 0x95
	OP_DIV    = 0x96
	OP_MOD    = 0x97
	OP_LSHIFT = 0x98
	OP_RSHIFT = 0x99

	OP_BOOLAND            = 0x9a
	OP_BOOLOR             = 0x9b
	OP_NUMEQUAL           = 0x9c
	OP_NUMEQUALVERIFY     = 0x9d
	OP_NUMNOTEQUAL        = 0x9e
	OP_LESSTHAN           = 0x9f
	OP_GREATERTHAN        = 0xa0
	OP_LESSTHANOREQUAL    = 0xa1
	OP_GREATERTHANOREQUAL = 0xa2
	OP_MIN                = 0xa3
	OP_MAX                = 0xa4
	OP_WITHIN             = 0xa5

	OP_RIPEMD160           = 0xa6
	OP_SHA1                = 0xa7
	OP_SHA256              = 0xa8
	OP_HASH160             = 0xa9
	OP_HASH256             = 0xaa
	OP_CODESEPARATOR       = 0xab
	OP_CHECKSIG            = 0xac
	OP_CHECKSIGVERIFY      = 0xad
	OP_CHECKMULTISIG       = 0xae
	OP_CHECKMULTISIGVERIFY = 0xaf

	OP_NOP1                = 0xb0
	OP_CHECKLOCKTIMEVERIFY = 0xb1
	OP_CHECKSEQUENCEVERIFY = 0xb2
	OP_NOP4                = 0xb3
	OP_NOP5                = 0xb4
	OP_NOP6                = 0xb5
	OP_NOP7                = 0xb6
	OP_NOP8                = 0xb7
	OP_NOP9                = 0xb8
	OP_NOP10               = 0xb9
	OP_CHECKSIGADD         = 0xba

	OP_INVALIDOPCODE = 0xff
)

// Consensus limits.
const (
	MaxScriptElementSize  = 520
	MaxOpsPerScript       = 201
	MaxPubKeysPerMultisig = 20
	MaxScriptSize         = 10000
	MaxStackSize          = 1000

	LockTimeThreshold           = 500000000
	SequenceFinal               = 0xffffffff
	SequenceLockTimeDisableFlag = 1 << 31
	SequenceLockTimeTypeFlag    = 1 << 22
	SequenceLockTimeMask        = 0x0000ffff

	ValidationWeightPerSigopPassed = 50
	ValidationWeightOffset         = 50

	TaprootLeafMask        = 0xfe
	TaprootLeafTapscript   = 0xc0
	TaprootControlBaseSize = 33
	TaprootControlNodeSize = 32
	TaprootControlMaxNodes = 128
	TaprootControlMaxSize  = TaprootControlBaseSize + TaprootControlNodeSize*TaprootControlMaxNodes
	AnnexTag               = 0x50
)

// Flags are Bitcoin Core's SCRIPT_VERIFY_* flags (own numbering).
type Flags uint32

const (
	P2SH Flags = 1 << iota
	STRICTENC
	DERSIG
	LOW_S
	NULLDUMMY
	SIGPUSHONLY
	MINIMALDATA
	DISCOURAGE_UPGRADABLE_NOPS
	CLEANSTACK
	CHECKLOCKTIMEVERIFY
	CHECKSEQUENCEVERIFY
	WITNESS
	DISCOURAGE_UPGRADABLE_WITNESS_PROGRAM
	MINIMALIF
	NULLFAIL
	WITNESS_PUBKEYTYPE
	CONST_SCRIPTCODE
	TAPROOT
	DISCOURAGE_UPGRADABLE_TAPROOT_VERSION
	DISCOURAGE_OP_SUCCESS
	DISCOURAGE_UPGRADABLE_PUBKEYTYPE
)

// FlagNames maps the names used in Core's JSON vectors to flags.
var FlagNames = map[string]Flags{
	"P2SH": P2SH, "STRICTENC": STRICTENC, "DERSIG": DERSIG, "LOW_S": LOW_S,
	"NULLDUMMY": NULLDUMMY, "SIGPUSHONLY": SIGPUSHONLY, "MINIMALDATA": MINIMALDATA,
	"DISCOURAGE_UPGRADABLE_NOPS": DISCOURAGE_UPGRADABLE_NOPS, "CLEANSTACK": CLEANSTACK,
	"CHECKLOCKTIMEVERIFY": CHECKLOCKTIMEVERIFY, "CHECKSEQUENCEVERIFY": CHECKSEQUENCEVERIFY,
	"WITNESS": WITNESS, "DISCOURAGE_UPGRADABLE_WITNESS_PROGRAM": DISCOURAGE_UPGRADABLE_WITNESS_PROGRAM,
	"MINIMALIF": MINIMALIF, "NULLFAIL": NULLFAIL, "WITNESS_PUBKEYTYPE": WITNESS_PUBKEYTYPE,
	"CONST_SCRIPTCODE": CONST_SCRIPTCODE, "TAPROOT": TAPROOT,
	"DISCOURAGE_UPGRADABLE_TAPROOT_VERSION": DISCOURAGE_UPGRADABLE_TAPROOT_VERSION,
	"DISCOURAGE_OP_SUCCESS":                 DISCOURAGE_OP_SUCCESS,
	"DISCOURAGE_UPGRADABLE_PUBKEYTYPE":      DISCOURAGE_UPGRADABLE_PUBKEYTYPE,
}

// GetOp reads one instruction starting at script[pc].  It returns the opcode,
// the pushed data (nil for non-push opcodes), the next pc, and ok=false when the
// instruction is truncated (CScript::GetOp returning false).
func GetOp(script []byte, pc int) (op byte, data []byte, next int, ok bool) {
	if pc >= len(script) {
		return OP_INVALIDOPCODE, nil, pc, false
	}
	op = script[pc]
	pc++
	if op <= OP_PUSHDATA4 {
		var n uint64
		switch {
		case op < OP_PUSHDATA1:
			n = uint64(op)
		case op == OP_PUSHDATA1:
			if len(script)-pc < 1 {
				return OP_INVALIDOPCODE, nil, pc, false
			}
			n = uint64(script[pc])
			pc++
		case op == OP_PUSHDATA2:
			if len(script)-pc < 2 {
				return OP_INVALIDOPCODE, nil, pc, false
			}
			n = uint64(script[pc]) | uint64(script[pc+1])<<8
			pc += 2
		default:
			if len(script)-pc < 4 {
				return OP_INVALIDOPCODE, nil, pc, false
			}
			n = uint64(script[pc]) | uint64(script[pc+1])<<8 | uint64(script[pc+2])<<16 | uint64(script[pc+3])<<24
			pc += 4
		}
		if uint64(len(script)-pc) < n {
			return OP_INVALIDOPCODE, nil, pc, false
		}
		data = script[pc : pc+int(n)]
		if data == nil {
			data = []byte{}
		}
		pc += int(n)
	}
	return op, data, pc, true
}

// IsPushOnly is CScript::IsPushOnly.
func IsPushOnly(script []byte) bool {
	pc := 0
	for pc < len(script) {
		op, _, next, ok := GetOp(script, pc)
		if !ok {
			return false
		}
		if op > OP_16 {
			return false
		}
		pc = next
	}
	return true
}

// IsPayToScriptHash is CScript::IsPayToScriptHash.
func IsPayToScriptHash(s []byte) bool {
	return len(s) == 23 && s[0] == OP_HASH160 && s[1] == 0x14 && s[22] == OP_EQUAL
}

// IsWitnessProgram is CScript::IsWitnessProgram.
func IsWitnessProgram(s []byte) (version int, program []byte, ok bool) {
	if len(s) < 4 || len(s) > 42 {
		return 0, nil, false
	}
	if s[0] != OP_0 && (s[0] < OP_1 || s[0] > OP_16) {
		return 0, nil, false
	}
	if int(s[1])+2 != len(s) {
		return 0, nil, false
	}
	v := 0
	if s[0] != OP_0 {
		v = int(s[0]) - (OP_1 - 1)
	}
	return v, s[2:], true
}

// IsPayToAnchor is CScript::IsPayToAnchor(version, program).
func IsPayToAnchor(version int, program []byte) bool {
	return version == 1 && len(program) == 2 && program[0] == 0x4e && program[1] == 0x73
}

// IsOpSuccess is BIP342's OP_SUCCESSx set.
func IsOpSuccess(op byte) bool {
	return op == 80 || op == 98 || (op >= 126 && op <= 129) ||
		(op >= 131 && op <= 134) || (op >= 137 && op <= 138) ||
		(op >= 141 && op <= 142) || (op >= 149 && op <= 153) ||
		(op >= 187 && op <= 254)
}

// PushData is "CScript() << vector": the push Core builds for a byte vector
// (direct push below 0x4c, then PUSHDATA1/2/4; an empty vector gives OP_0; small
// integers are NOT turned into OP_N).
func PushData(b []byte) []byte {
	n := len(b)
	var out []byte
	switch {
	case n < OP_PUSHDATA1:
		out = append(out, byte(n))
	case n <= 0xff:
		out = append(out, OP_PUSHDATA1, byte(n))
	case n <= 0xffff:
		out = append(out, OP_PUSHDATA2, byte(n), byte(n>>8))
	default:
		out = append(out, OP_PUSHDATA4, byte(n), byte(n>>8), byte(n>>16), byte(n>>24))
	}
	return append(out, b...)
}

// FindAndDelete removes every occurrence of pat that starts on an instruction
// boundary of script (Core's FindAndDelete).  Returns the new script and the
// number of matches.
func FindAndDelete(script, pat []byte) ([]byte, int) {
	if len(pat) == 0 {
		return script, 0
	}
	found := 0
	var result []byte
	pc, pc2 := 0, 0
	for {
		result = append(result, script[pc2:pc]...)
		for len(script)-pc >= len(pat) && bytesEqual(script[pc:pc+len(pat)], pat) {
			pc += len(pat)
			found++
		}
		pc2 = pc
		_, _, next, ok := GetOp(script, pc)
		if !ok {
			break
		}
		pc = next
	}
	if found > 0 {
		result = append(result, script[pc2:]...)
		return result, found
	}
	return script, 0
}

func bytesEqual(a, b []byte) bool {
	if len(a) != len(b) {
		return false
	}
	for i := range a {
		if a[i] != b[i] {
			return false
		}
	}
	return true
}

// CastToBool is Core's CastToBool: false iff all bytes are zero, allowing a
// 0x80 sign byte in the last position (negative zero).
func CastToBool(v []byte) bool {
	for i := range v {
		if v[i] != 0 {
			if i == len(v)-1 && v[i] == 0x80 {
				return false
			}
			return true
		}
	}
	return false
}

// ---- CScriptNum ----

type numErr struct{ s string }

// DecodeNum is the CScriptNum(vch, fRequireMinimal, nMaxNumSize) constructor.
func DecodeNum(v []byte, requireMinimal bool, maxSize int) (int64, bool) {
	if len(v) > maxSize {
		return 0, false
	}
	if requireMinimal && len(v) > 0 {
		if v[len(v)-1]&0x7f == 0 {
			if len(v) <= 1 || v[len(v)-2]&0x80 == 0 {
				return 0, false
			}
		}
	}
	if len(v) == 0 {
		return 0, true
	}
	var r int64
	for i := 0; i < len(v); i++ {
		r |= int64(v[i]) << (8 * uint(i))
	}
	if v[len(v)-1]&0x80 != 0 {
		r &^= int64(0x80) << (8 * uint(len(v)-1))
		return -r, true
	}
	return r, true
}

// EncodeNum is CScriptNum::serialize.
func EncodeNum(n int64) []byte {
	if n == 0 {
		return []byte{}
	}
	neg := n < 0
	var abs uint64
	if neg {
		abs = uint64(-n)
	} else {
		abs = uint64(n)
	}
	var out []byte
	for abs != 0 {
		out = append(out, byte(abs&0xff))
		abs >>= 8
	}
	if out[len(out)-1]&0x80 != 0 {
		if neg {
			out = append(out, 0x80)
		} else {
			out = append(out, 0)
		}
	} else if neg {
		out[len(out)-1] |= 0x80
	}
	return out
}

// numToInt is CScriptNum::getint (saturating to int32).
func numToInt(n int64) int {
	if n > 0x7fffffff {
		return 0x7fffffff
	}
	if n < -0x80000000 {
		return -0x80000000
	}
	return int(n)
}

// CheckMinimalPush is Core's CheckMinimalPush.
func CheckMinimalPush(data []byte, op byte) bool {
	switch {
	case len(data) == 0:
		return op == OP_0
	case len(data) == 1 && data[0] >= 1 && data[0] <= 16:
		return false
	case len(data) == 1 && data[0] == 0x81:
		return false
	case len(data) <= 75:
		return int(op) == len(data)
	case len(data) <= 255:
		return op == OP_PUSHDATA1
	case len(data) <= 65535:
		return op == OP_PUSHDATA2
	}
	return true
}

// OpNames gives Core's opcode names for diagnostics and the short-form parser.
var OpNames = map[byte]string{
	0x00: "OP_0", 0x4c: "OP_PUSHDATA1", 0x4d: "OP_PUSHDATA2", 0x4e: "OP_PUSHDATA4", 0x4f: "OP_1NEGATE",
	0x50: "OP_RESERVED", 0x51: "OP_1", 0x52: "OP_2", 0x53: "OP_3", 0x54: "OP_4", 0x55: "OP_5", 0x56: "OP_6",
	0x57: "OP_7", 0x58: "OP_8", 0x59: "OP_9", 0x5a: "OP_10", 0x5b: "OP_11", 0x5c: "OP_12", 0x5d: "OP_13",
	0x5e: "OP_14", 0x5f: "OP_15", 0x60: "OP_16",
	0x61: "OP_NOP", 0x62: "OP_VER", 0x63: "OP_IF", 0x64: "OP_NOTIF", 0x65: "OP_VERIF", 0x66: "OP_VERNOTIF",
	0x67: "OP_ELSE", 0x68: "OP_ENDIF", 0x69: "OP_VERIFY", 0x6a: "OP_RETURN",
	0x6b: "OP_TOALTSTACK", 0x6c: "OP_FROMALTSTACK", 0x6d: "OP_2DROP", 0x6e: "OP_2DUP", 0x6f: "OP_3DUP",
	0x70: "OP_2OVER", 0x71: "OP_2ROT", 0x72: "OP_2SWAP", 0x73: "OP_IFDUP", 0x74: "OP_DEPTH", 0x75: "OP_DROP",
	0x76: "OP_DUP", 0x77: "OP_NIP", 0x78: "OP_OVER", 0x79: "OP_PICK", 0x7a: "OP_ROLL", 0x7b: "OP_ROT",
	0x7c: "OP_SWAP", 0x7d: "OP_TUCK",
	0x7e: "OP_CAT", 0x7f: "OP_SUBSTR", 0x80: "OP_LEFT", 0x81: "OP_RIGHT", 0x82: "OP_SIZE",
	0x83: "OP_INVERT", 0x84: "OP_AND", 0x85: "OP_OR", 0x86: "OP_XOR", 0x87: "OP_EQUAL", 0x88: "OP_EQUALVERIFY",
	0x89: "OP_RESERVED1", 0x8a: "OP_RESERVED2",
	0x8b: "OP_1ADD", 0x8c: "OP_1SUB", 0x8d: "OP_2MUL", 0x8e: "OP_2DIV", 0x8f: "OP_NEGATE", 0x90: "OP_ABS",
	0x91: "OP_NOT", 0x92: "OP_0NOTEQUAL", 0x93: "OP_ADD", 0x94: "OP_SUB", 0x95: "OP_MUL", 0x96: "OP_DIV",
	0x97: "OP_MOD", 0x98: "OP_LSHIFT", 0x99: "OP_RSHIFT",
	0x9a: "OP_BOOLAND", 0x9b: "OP_BOOLOR", 0x9c: "OP_NUMEQUAL", 0x9d: "OP_NUMEQUALVERIFY",
	0x9e: "OP_NUMNOTEQUAL", 0x9f: "OP_LESSTHAN", 0xa0: "OP_GREATERTHAN", 0xa1: "OP_LESSTHANOREQUAL",
	0xa2: "OP_GREATERTHANOREQUAL", 0xa3: "OP_MIN", 0xa4: "OP_MAX", 0xa5: "OP_WITHIN",
	0xa6: "OP_RIPEMD160", 0xa7: "OP_SHA1", 0xa8: "OP_SHA256", 0xa9: "OP_HASH160", 0xaa: "OP_HASH256",
	0xab: "OP_CODESEPARATOR", 0xac: "OP_CHECKSIG", 0xad: "OP_CHECKSIGVERIFY", 0xae: "OP_CHECKMULTISIG",
	0xaf: "OP_CHECKMULTISIGVERIFY",
	0xb0: "OP_NOP1", 0xb1: "OP_CHECKLOCKTIMEVERIFY", 0xb2: "OP_CHECKSEQUENCEVERIFY", 0xb3: "OP_NOP4",
	0xb4: "OP_NOP5", 0xb5: "OP_NOP6", 0xb6: "OP_NOP7", 0xb7: "OP_NOP8", 0xb8: "OP_NOP9", 0xb9: "OP_NOP10",
	0xba: "OP_CHECKSIGADD", 0xff: "OP_INVALIDOPCODE",
}

// OpByName is the inverse of OpNames plus Core's aliases.
var OpByName = func() map[string]byte {
	m := map[string]byte{}
	for v, n := range OpNames {
		m[n] = v
	}
	m["OP_FALSE"] = 0x00
	m["OP_TRUE"] = 0x51
	m["OP_NOP2"] = 0xb1
	m["OP_NOP3"] = 0xb2
	return m
}()
