// Package refcodec is an independent, deliberately naive reference for the
// persisted chain-state record formats of btcd (property C15).
//
// It is written from the format comments in blockchain/compress.go,
// blockchain/chainio.go, blockchain/upgrade.go and from Bitcoin Core's
// compressor.cpp / serialize.h (VARINT), with math/big and decimal strings.  It
// does not import the blockchain package and shares no code with it.
package refcodec

import (
	"bytes"
	"errors"
	"math/big"
	"strings"
)

// ---------------------------------------------------------------------------
// VLQ.  "MSB base-128, high bit = another byte follows, an offset is subtracted
// every time a group of 7 bits is shifted out, so every integer has exactly one
// encoding".  Equivalent closed form used here: the encodings with exactly k
// bytes are, in numeric order, the numbers S(k) .. S(k)+128^k-1 where
// S(1)=0 and S(k+1)=S(k)+128^k (0-127 one byte, 128-16511 two bytes, 16512-
// 2113663 three bytes ...), the k 7-bit groups being the base-128 digits of
// n-S(k), most significant first.
// ---------------------------------------------------------------------------

var (
	big128 = big.NewInt(128)
	// Two64 is 2^64.
	Two64 = new(big.Int).Lsh(big.NewInt(1), 64)
)

// VLQStart returns S(k): the smallest number whose encoding has k bytes.
func VLQStart(k int) *big.Int {
	s := new(big.Int)
	p := big.NewInt(1)
	for i := 1; i < k; i++ {
		p = new(big.Int).Mul(p, big128)
		s.Add(s, p)
	}
	return s
}

// PutVLQBig encodes an arbitrary non-negative integer.
func PutVLQBig(n *big.Int) []byte {
	k := 1
	for vlqStart(k+1).Cmp(n) <= 0 {
		k++
	}
	m := new(big.Int).Sub(n, vlqStart(k))
	out := make([]byte, k)
	for i := k - 1; i >= 0; i-- {
		q, r := new(big.Int).QuoRem(m, big128, new(big.Int))
		out[i] = byte(r.Uint64())
		if i != k-1 {
			out[i] |= 0x80
		}
		m = q
	}
	return out
}

// vlqStarts caches S(k) for 64-bit use.
var vlqStarts = func() []*big.Int {
	var s []*big.Int
	for k := 0; k <= 12; k++ {
		s = append(s, VLQStart(k))
	}
	return s
}()

func vlqStart(k int) *big.Int {
	if k < len(vlqStarts) {
		return vlqStarts[k]
	}
	return VLQStart(k)
}

// ReadVLQ64 is ReadVLQ restricted to the 64-bit range: fits is false when the
// terminated value is 2^64 or more.  Encodings of at most 9 bytes are below
// S(10) = 128+128^2+...+128^9 < 2^64, so they are evaluated in uint64
// arithmetic; longer ones go through math/big.
func ReadVLQ64(b []byte) (v uint64, size int, terminated, fits bool) {
	k := 0
	for k < len(b) && b[k]&0x80 != 0 {
		k++
	}
	if k == len(b) {
		return 0, len(b), false, false
	}
	k++
	if k <= 9 {
		var m, s, p uint64 = 0, 0, 1
		for i := 0; i < k; i++ {
			m = m*128 + uint64(b[i]&0x7f)
			if i > 0 {
				p *= 128
				s += p
			}
		}
		return s + m, k, true, true
	}
	x, _, _ := ReadVLQ(b)
	if x.Cmp(Two64) >= 0 {
		return 0, k, true, false
	}
	return x.Uint64(), k, true, true
}

// PutVLQ encodes a 64-bit number.
func PutVLQ(n uint64) []byte {
	if n < 128 {
		return []byte{byte(n)}
	}
	return PutVLQBig(new(big.Int).SetUint64(n))
}

// SizeVLQ is the encoded length.
func SizeVLQ(n uint64) int { return len(PutVLQ(n)) }

// ReadVLQ parses one VLQ from the front of b.  terminated is false when b ends
// before a byte without the continuation bit was seen (size is then len(b) and
// v is meaningless).  v is the exact (unbounded) mathematical value.
func ReadVLQ(b []byte) (v *big.Int, size int, terminated bool) {
	k := 0
	for k < len(b) && b[k]&0x80 != 0 {
		k++
	}
	if k == len(b) {
		return new(big.Int), len(b), false
	}
	k++ // include the terminating byte
	m := new(big.Int)
	for i := 0; i < k; i++ {
		m.Mul(m, big128)
		m.Add(m, big.NewInt(int64(b[i]&0x7f)))
	}
	return m.Add(m, vlqStart(k)), k, true
}

// ---------------------------------------------------------------------------
// Amount compression (Core CompressAmount / DecompressAmount), done on decimal
// strings.
//   0 -> 0
//   e = number of trailing decimal zeros, at most 9
//   e < 9: d = last non-zero digit, n = the digits before it:
//          1 + 10*(9*n + d - 1) + e
//   e = 9: n = amount / 10^9:  1 + 10*(n - 1) + 9
// ---------------------------------------------------------------------------

func bigFromDec(s string) *big.Int {
	if s == "" {
		return new(big.Int)
	}
	v, ok := new(big.Int).SetString(s, 10)
	if !ok {
		panic("refcodec: bad decimal " + s)
	}
	return v
}

// CompressAmountExact returns the exact mathematical compressed value (it may
// not fit 64 bits for amounts above about 2^64/9; Core and btcd both compute it
// modulo 2^64 there and the format is then lossy).
func CompressAmountExact(amount uint64) *big.Int {
	if amount == 0 {
		return new(big.Int)
	}
	s := new(big.Int).SetUint64(amount).String()
	e := 0
	for e < 9 && strings.HasSuffix(s, "0") {
		s = s[:len(s)-1]
		e++
	}
	r := new(big.Int)
	if e < 9 {
		d := int64(s[len(s)-1] - '0')
		n := bigFromDec(s[:len(s)-1])
		r.Mul(n, big.NewInt(9))
		r.Add(r, big.NewInt(d-1))
		r.Mul(r, big.NewInt(10))
		r.Add(r, big.NewInt(int64(1+e)))
		return r
	}
	n := bigFromDec(s)
	r.Sub(n, big.NewInt(1))
	r.Mul(r, big.NewInt(10))
	r.Add(r, big.NewInt(10))
	return r
}

// CompressAmount returns the compressed value as the 64-bit arithmetic of the
// format defines it, and whether it is exact (no wrap-around).
func CompressAmount(amount uint64) (c uint64, exact bool) {
	x := CompressAmountExact(amount)
	exact = x.Cmp(Two64) < 0
	return new(big.Int).Mod(x, Two64).Uint64(), exact
}

// DecompressAmountExact inverts the compression on decimal strings; the result
// is the exact mathematical amount (it may exceed 64 bits for compressed values
// that no 64-bit amount produces).
func DecompressAmountExact(c uint64) *big.Int {
	if c == 0 {
		return new(big.Int)
	}
	x := new(big.Int).SetUint64(c)
	x.Sub(x, big.NewInt(1))
	q, eB := new(big.Int).QuoRem(x, big.NewInt(10), new(big.Int))
	e := int(eB.Int64())
	var digits string
	if e < 9 {
		n, dm1 := new(big.Int).QuoRem(q, big.NewInt(9), new(big.Int))
		digits = string(rune('0' + dm1.Int64() + 1))
		if n.Sign() != 0 {
			digits = n.String() + digits
		}
	} else {
		digits = new(big.Int).Add(q, big.NewInt(1)).String()
	}
	return bigFromDec(digits + strings.Repeat("0", e))
}

// ---------------------------------------------------------------------------
// secp256k1 point helpers (math/big).
// ---------------------------------------------------------------------------

var (
	// P is the secp256k1 field prime.
	P, _  = new(big.Int).SetString("fffffffffffffffffffffffffffffffffffffffffffffffffffffffefffffc2f", 16)
	seven = big.NewInt(7)
)

func rhs(x *big.Int) *big.Int {
	r := new(big.Int).Exp(x, big.NewInt(3), P)
	r.Add(r, seven)
	return r.Mod(r, P)
}

// LiftX returns the y with the requested parity such that (x,y) is on the
// curve; ok is false when x is not a field element or x^3+7 is not a square.
func LiftX(x *big.Int, odd bool) (*big.Int, bool) {
	if x.Sign() < 0 || x.Cmp(P) >= 0 {
		return nil, false
	}
	y := new(big.Int).ModSqrt(rhs(x), P)
	if y == nil {
		return nil, false
	}
	if (y.Bit(0) == 1) != odd {
		y.Sub(P, y)
		y.Mod(y, P)
		if (y.Bit(0) == 1) != odd {
			return nil, false // y == 0 cannot happen on secp256k1, be safe
		}
	}
	return y, true
}

// OnCurve reports whether (x,y) are field elements satisfying y^2 = x^3 + 7.
func OnCurve(x, y *big.Int) bool {
	if x.Sign() < 0 || x.Cmp(P) >= 0 || y.Sign() < 0 || y.Cmp(P) >= 0 {
		return false
	}
	l := new(big.Int).Mul(y, y)
	l.Mod(l, P)
	return l.Cmp(rhs(x)) == 0
}

// ---------------------------------------------------------------------------
// Script compression.
//   P2PKH  76 a9 14 <20> 88 ac           -> 00 <20>
//   P2SH   a9 14 <20> 87                 -> 01 <20>
//   P2PK   21 <02|03 X> ac  (valid key)  -> <02|03> X
//   P2PK   41 <04 X Y> ac   (valid key)  -> <04|05 by parity of Y> X
//   other                                -> VLQ(len+6) script
// ---------------------------------------------------------------------------

const (
	opDup         = 0x76
	opHash160     = 0xa9
	opEqualVerify = 0x88
	opCheckSig    = 0xac
	opEqual       = 0x87
	// NumSpecial is the number of special script types.
	NumSpecial = 6
)

// Class names the compressed form a script takes.
type Class int

const (
	ClassRaw Class = iota
	ClassP2PKH
	ClassP2SH
	ClassP2PKComp
	ClassP2PKUncomp
)

// Classify returns the compressed form chosen for the script.
func Classify(s []byte) Class {
	switch {
	case len(s) == 25 && s[0] == opDup && s[1] == opHash160 && s[2] == 20 &&
		s[23] == opEqualVerify && s[24] == opCheckSig:
		return ClassP2PKH
	case len(s) == 23 && s[0] == opHash160 && s[1] == 20 && s[22] == opEqual:
		return ClassP2SH
	case len(s) == 35 && s[0] == 33 && s[34] == opCheckSig && (s[1] == 2 || s[1] == 3):
		x := new(big.Int).SetBytes(s[2:34])
		if _, ok := LiftX(x, s[1] == 3); ok {
			return ClassP2PKComp
		}
	case len(s) == 67 && s[0] == 65 && s[66] == opCheckSig && s[1] == 4:
		x := new(big.Int).SetBytes(s[2:34])
		y := new(big.Int).SetBytes(s[34:66])
		if OnCurve(x, y) {
			return ClassP2PKUncomp
		}
	}
	return ClassRaw
}

// CompressScript returns the compressed script bytes.
func CompressScript(s []byte) []byte {
	switch Classify(s) {
	case ClassP2PKH:
		return append([]byte{0}, s[3:23]...)
	case ClassP2SH:
		return append([]byte{1}, s[2:22]...)
	case ClassP2PKComp:
		return append([]byte{s[1]}, s[2:34]...)
	case ClassP2PKUncomp:
		return append([]byte{4 | (s[65] & 1)}, s[2:34]...)
	}
	out := PutVLQ(uint64(len(s) + NumSpecial))
	return append(out, s...)
}

// Decode status values.
var (
	ErrTruncated = errors.New("refcodec: truncated")
	ErrOverflow  = errors.New("refcodec: VLQ does not fit the format's integer width")
	ErrBadKey    = errors.New("refcodec: special type 4/5 with X not on the curve")
	ErrTrailing  = errors.New("refcodec: trailing bytes")
)

// DecompressScript parses one compressed script from the front of b and returns
// the original script and the number of bytes consumed.
func DecompressScript(b []byte) ([]byte, int, error) {
	v, n, term, fits := ReadVLQ64(b)
	if !term {
		return nil, 0, ErrTruncated
	}
	if !fits {
		return nil, 0, ErrOverflow
	}
	if v >= NumSpecial {
		l := v - NumSpecial
		if l > uint64(len(b)-n) {
			if l >= 1<<62 {
				return nil, 0, ErrOverflow
			}
			return nil, 0, ErrTruncated
		}
		ln := int(l)
		return append([]byte{}, b[n:n+ln]...), n + ln, nil
	}
	t := byte(v)
	need := 20
	if t >= 2 {
		need = 32
	}
	if len(b) < 1+need {
		return nil, 0, ErrTruncated
	}
	d := b[1 : 1+need]
	switch t {
	case 0:
		s := []byte{opDup, opHash160, 20}
		s = append(s, d...)
		return append(s, opEqualVerify, opCheckSig), 21, nil
	case 1:
		s := []byte{opHash160, 20}
		s = append(s, d...)
		return append(s, opEqual), 21, nil
	case 2, 3:
		s := []byte{33, t}
		s = append(s, d...)
		return append(s, opCheckSig), 33, nil
	}
	x := new(big.Int).SetBytes(d)
	y, ok := LiftX(x, t == 5)
	if !ok {
		return nil, 33, ErrBadKey
	}
	s := []byte{65, 4}
	s = append(s, d...)
	s = append(s, y.FillBytes(make([]byte, 32))...)
	return append(s, opCheckSig), 33, nil
}

// ---------------------------------------------------------------------------
// Compressed txout, utxo entry, spent txout, spend journal.
// ---------------------------------------------------------------------------

// TxOut encodes <VLQ(compressed amount)><compressed script>.
func TxOut(amount uint64, script []byte) []byte {
	c, _ := CompressAmount(amount)
	return append(PutVLQ(c), CompressScript(script)...)
}

// DecodeTxOut parses a compressed txout from the front of b.
func DecodeTxOut(b []byte) (amount uint64, script []byte, n int, err error) {
	v, n1, term, fits := ReadVLQ64(b)
	if !term {
		return 0, nil, 0, ErrTruncated
	}
	if !fits {
		return 0, nil, 0, ErrOverflow
	}
	a := DecompressAmountExact(v)
	if a.Cmp(Two64) >= 0 {
		return 0, nil, 0, ErrOverflow
	}
	s, n2, err := DecompressScript(b[n1:])
	if err != nil {
		return 0, nil, 0, err
	}
	return a.Uint64(), s, n1 + n2, nil
}

// Entry is a utxo entry / spent output.
type Entry struct {
	Amount   int64
	Script   []byte
	Height   int32
	CoinBase bool
}

func headerCode(height int32, coinbase bool) uint64 {
	c := uint64(uint32(height)) * 2
	if coinbase {
		c++
	}
	return c
}

// UtxoEntry encodes <VLQ(height*2+coinbase)><compressed txout>.
func UtxoEntry(e Entry) []byte {
	return append(PutVLQ(headerCode(e.Height, e.CoinBase)), TxOut(uint64(e.Amount), e.Script)...)
}

// DecodeUtxoEntry parses a complete utxo entry (all of b).
func DecodeUtxoEntry(b []byte) (Entry, error) {
	c, n, term, fits := ReadVLQ64(b)
	if !term {
		return Entry{}, ErrTruncated
	}
	if !fits || c >= 1<<32 { // height is 31 bits + coinbase flag
		return Entry{}, ErrOverflow
	}
	a, s, n2, err := DecodeTxOut(b[n:])
	if err != nil {
		return Entry{}, err
	}
	if a > 1<<63-1 {
		return Entry{}, ErrOverflow
	}
	if n+n2 != len(b) {
		return Entry{}, ErrTrailing
	}
	return Entry{Amount: int64(a), Script: s, Height: int32(c >> 1), CoinBase: c&1 == 1}, nil
}

// SpentTxOut encodes <VLQ(header code)>[<reserved 0x00> when height > 0]
// <compressed txout>.
func SpentTxOut(e Entry) []byte {
	out := PutVLQ(headerCode(e.Height, e.CoinBase))
	if e.Height > 0 {
		out = append(out, 0x00)
	}
	return append(out, TxOut(uint64(e.Amount), e.Script)...)
}

// DecodeSpentTxOut parses one stxo from the front of b.
func DecodeSpentTxOut(b []byte) (Entry, int, error) {
	c, n, term, fits := ReadVLQ64(b)
	if !term {
		return Entry{}, 0, ErrTruncated
	}
	if !fits || c >= 1<<32 {
		return Entry{}, 0, ErrOverflow
	}
	if c>>1 > 0 {
		// reserved field: a VLQ whose value is ignored (legacy tx version).
		_, nr, termr, _ := ReadVLQ64(b[n:])
		if !termr {
			return Entry{}, 0, ErrTruncated
		}
		n += nr
	}
	a, s, n2, err := DecodeTxOut(b[n:])
	if err != nil {
		return Entry{}, 0, err
	}
	if a > 1<<63-1 {
		return Entry{}, 0, ErrOverflow
	}
	return Entry{Amount: int64(a), Script: s, Height: int32(c >> 1), CoinBase: c&1 == 1}, n + n2, nil
}

// SpendJournal encodes the stxos of a block: last spent output first.
func SpendJournal(stxos []Entry) []byte {
	var out []byte
	for i := len(stxos) - 1; i >= 0; i-- {
		out = append(out, SpentTxOut(stxos[i])...)
	}
	return out
}

// DecodeSpendJournal parses exactly n stxos from all of b.
func DecodeSpendJournal(b []byte, n int) ([]Entry, error) {
	out := make([]Entry, n)
	off := 0
	for i := n - 1; i >= 0; i-- {
		e, k, err := DecodeSpentTxOut(b[off:])
		if err != nil {
			return nil, err
		}
		out[i] = e
		off += k
	}
	if off != len(b) {
		return nil, ErrTrailing
	}
	return out, nil
}

// ---------------------------------------------------------------------------
// Legacy (utxo bucket version 1) per-transaction entry, see upgrade.go:
//   <VLQ version><VLQ height><VLQ header code><unspentness bitmap>[<txout>,...]
//   header code: bit0 coinbase, bit1 output 0 unspent, bit2 output 1 unspent,
//   bits 3.. number of bitmap bytes (N-1 when bits 1 and 2 are both unset).
// ---------------------------------------------------------------------------

// V0Entry encodes a legacy entry for the given sparse outputs.
func V0Entry(version uint64, height int32, coinbase bool, outs map[uint32]Entry) []byte {
	var idx []uint32
	maxIdx := int64(-1)
	for i := range outs {
		idx = append(idx, i)
		if int64(i) > maxIdx {
			maxIdx = int64(i)
		}
	}
	// sort ascending (tiny n)
	for i := range idx {
		for j := i + 1; j < len(idx); j++ {
			if idx[j] < idx[i] {
				idx[i], idx[j] = idx[j], idx[i]
			}
		}
	}
	nBytes := uint64(0)
	if maxIdx >= 2 {
		nBytes = uint64((maxIdx-2)/8 + 1)
	}
	bitmap := make([]byte, nBytes)
	for _, i := range idx {
		if i >= 2 {
			bitmap[(i-2)/8] |= 1 << ((i - 2) % 8)
		}
	}
	_, o0 := outs[0]
	_, o1 := outs[1]
	code := nBytes
	if !o0 && !o1 {
		code-- // caller guarantees at least one unspent output => nBytes >= 1
	}
	code <<= 3
	if coinbase {
		code |= 1
	}
	if o0 {
		code |= 2
	}
	if o1 {
		code |= 4
	}
	out := PutVLQ(version)
	out = append(out, PutVLQ(uint64(height))...)
	out = append(out, PutVLQ(code)...)
	out = append(out, bitmap...)
	for _, i := range idx {
		out = append(out, TxOut(uint64(outs[i].Amount), outs[i].Script)...)
	}
	return out
}

// ---------------------------------------------------------------------------
// Best chain state:  <hash 32><height u32 LE><total txns u64 LE><len u32 LE>
// <work sum, big-endian magnitude>.
// Block index row:   <80-byte block header><status byte>, key = <height u32 BE>
// <hash>.
// Utxo key:          <txid 32><VLQ(output index)>.
// ---------------------------------------------------------------------------

func le(v uint64, n int) []byte {
	out := make([]byte, n)
	for i := 0; i < n; i++ {
		out[i] = byte(v >> (8 * uint(i)))
	}
	return out
}

// BestState encodes the best-chain-state record.
func BestState(hash [32]byte, height uint32, totalTxns uint64, work *big.Int) []byte {
	w := work.Bytes()
	out := append([]byte{}, hash[:]...)
	out = append(out, le(uint64(height), 4)...)
	out = append(out, le(totalTxns, 8)...)
	out = append(out, le(uint64(len(w)), 4)...)
	return append(out, w...)
}

// DecodeBestState parses the record; trailing bytes after the work sum are
// permitted by the format reader (they are ignored).
func DecodeBestState(b []byte) (hash [32]byte, height uint32, totalTxns uint64, work *big.Int, err error) {
	if len(b) < 48 {
		return hash, 0, 0, nil, ErrTruncated
	}
	copy(hash[:], b[:32])
	rd := func(p []byte) uint64 {
		var v uint64
		for i := len(p) - 1; i >= 0; i-- {
			v = v<<8 | uint64(p[i])
		}
		return v
	}
	height = uint32(rd(b[32:36]))
	totalTxns = rd(b[36:44])
	l := rd(b[44:48])
	if uint64(len(b)-48) < l {
		return hash, 0, 0, nil, ErrTruncated
	}
	work = new(big.Int).SetBytes(b[48 : 48+l])
	return hash, height, totalTxns, work, nil
}

// Header is a block header.
type Header struct {
	Version int32
	Prev    [32]byte
	Merkle  [32]byte
	Time    uint32
	Bits    uint32
	Nonce   uint32
}

// BlockRow encodes the block-index value.
func BlockRow(h Header, status byte) []byte {
	out := le(uint64(uint32(h.Version)), 4)
	out = append(out, h.Prev[:]...)
	out = append(out, h.Merkle[:]...)
	out = append(out, le(uint64(h.Time), 4)...)
	out = append(out, le(uint64(h.Bits), 4)...)
	out = append(out, le(uint64(h.Nonce), 4)...)
	return append(out, status)
}

// BlockRowKey encodes the block-index key.
func BlockRowKey(hash [32]byte, height uint32) []byte {
	out := []byte{byte(height >> 24), byte(height >> 16), byte(height >> 8), byte(height)}
	return append(out, hash[:]...)
}

// OutpointKey encodes the utxo-bucket key.
func OutpointKey(txid [32]byte, index uint32) []byte {
	return append(append([]byte{}, txid[:]...), PutVLQ(uint64(index))...)
}

// Equal is bytes.Equal treating nil and empty alike.
func Equal(a, b []byte) bool { return bytes.Equal(a, b) }
