// Package refdb is the deliberately naive reference model of btcd's
// database.DB / Tx / Bucket / Cursor interface (database/interface.go).
//
// It is written from the interface documentation only:
//   - metadata is a nested ordered map: bucket -> {key -> value | name -> bucket};
//   - blocks are a map hash -> bytes;
//   - a transaction works on a private deep copy of the committed state
//     (copy-on-write snapshot in the most literal sense); Commit installs the copy,
//     Rollback throws it away; read-only transactions keep the copy they got at
//     Begin, so later commits cannot change what they see;
//   - misuse returns the error codes the interface doc comments guarantee.
//
// Two places where interface.go leaves a choice are made explicit:
//   - a cursor walks "key/value pairs and nested buckets": the documentation does
//     not say how the two kinds interleave.  The model walks all key/value pairs
//     in byte order first and all nested buckets in byte order after them.  Seek
//     is specified for key/value pairs only; a Seek beyond the last pair of a
//     bucket that has nested buckets leaves the cursor unpredictable.
//   - "any modification to the bucket other than Cursor.Delete invalidates the
//     cursor": the model then refuses to predict anything until the cursor is
//     repositioned (Predictable() == false), and likewise for Key/Value right
//     after Cursor.Delete.
//
// Nothing here shares code with ffldb; only the error-code constants of package
// database are imported.
package refdb

import (
	"bytes"
	"encoding/hex"
	"sort"
	"strings"

	"github.com/btcsuite/btcd/database"
)

// OK is the "no error" code.
const OK = database.ErrorCode(-1)

// Hash is a block hash.
type Hash = [32]byte

// HeaderLen is the length of a serialized block header.
const HeaderLen = 80

// Bucket is one level of the nested ordered map.
type Bucket struct {
	Keys map[string][]byte
	Subs map[string]*Bucket
}

func newBucket() *Bucket { return &Bucket{Keys: map[string][]byte{}, Subs: map[string]*Bucket{}} }

func (b *Bucket) clone() *Bucket {
	n := newBucket()
	for k, v := range b.Keys {
		n.Keys[k] = append([]byte{}, v...)
	}
	for k, s := range b.Subs {
		n.Subs[k] = s.clone()
	}
	return n
}

// State is a complete database state.
type State struct {
	Root   *Bucket
	Blocks map[Hash][]byte
	Order  []Hash // hashes in the order their transactions committed (store order inside a tx)
}

// NewState returns the empty state.
func NewState() *State { return &State{Root: newBucket(), Blocks: map[Hash][]byte{}} }

// Clone is a deep copy.
func (s *State) Clone() *State {
	n := &State{Root: s.Root.clone(), Blocks: map[Hash][]byte{}, Order: append([]Hash{}, s.Order...)}
	for h, b := range s.Blocks {
		n.Blocks[h] = append([]byte{}, b...)
	}
	return n
}

func sortedKeys[V any](m map[string]V) []string {
	out := make([]string, 0, len(m))
	for k := range m {
		out = append(out, k)
	}
	sort.Slice(out, func(i, j int) bool { return bytes.Compare([]byte(out[i]), []byte(out[j])) < 0 })
	return out
}

func dumpBucket(sb *strings.Builder, b *Bucket) {
	sb.WriteString("{")
	for _, k := range sortedKeys(b.Keys) {
		sb.WriteString(hex.EncodeToString([]byte(k)))
		sb.WriteString("=")
		sb.WriteString(hex.EncodeToString(b.Keys[k]))
		sb.WriteString(";")
	}
	for _, k := range sortedKeys(b.Subs) {
		sb.WriteString(hex.EncodeToString([]byte(k)))
		sb.WriteString(":")
		dumpBucket(sb, b.Subs[k])
	}
	sb.WriteString("}")
}

// Dump is the canonical rendering: keys in byte order, then nested buckets in
// byte order (recursively), then the blocks in hash order with their full bytes.
func (s *State) Dump() string {
	var sb strings.Builder
	dumpBucket(&sb, s.Root)
	hs := make([]string, 0, len(s.Blocks))
	for h := range s.Blocks {
		hs = append(hs, string(h[:]))
	}
	sort.Strings(hs)
	sb.WriteString("|blocks:")
	for _, h := range hs {
		var hh Hash
		copy(hh[:], h)
		sb.WriteString(hex.EncodeToString(hh[:4]))
		sb.WriteString("=")
		sb.WriteString(hex.EncodeToString(s.Blocks[hh]))
		sb.WriteString(";")
	}
	return sb.String()
}

// DB is the reference database.
type DB struct {
	committed  *State
	writerOpen bool
}

// New returns an empty reference database.
func New() *DB { return &DB{committed: NewState()} }

// FromState returns a reference database whose committed state is s.
func FromState(s *State) *DB { return &DB{committed: s} }

// Committed returns the committed state (do not modify).
func (d *DB) Committed() *State { return d.committed }

// WriterOpen reports whether a writable transaction is open (a second Begin(true)
// would block).
func (d *DB) WriterOpen() bool { return d.writerOpen }

// Tx is a reference transaction.
type Tx struct {
	db       *DB
	st       *State
	Writable bool
	Closed   bool
	cursors  []*Cursor
}

// Begin starts a transaction on a private copy of the committed state.
func (d *DB) Begin(writable bool) *Tx {
	if writable {
		if d.writerOpen {
			panic("refdb: second writer would block")
		}
		d.writerOpen = true
	}
	return &Tx{db: d, st: d.committed.Clone(), Writable: writable}
}

// State is the transaction's view.
func (t *Tx) State() *State { return t.st }

func (t *Tx) end() {
	t.Closed = true
	if t.Writable {
		t.db.writerOpen = false
	}
	t.st = nil
}

// Commit installs the transaction's copy as the committed state.
func (t *Tx) Commit() database.ErrorCode {
	if t.Closed {
		return database.ErrTxClosed
	}
	if !t.Writable {
		t.end() // "regardless of whether the commit succeeds, the transaction is closed"
		return database.ErrTxNotWritable
	}
	t.db.committed = t.st
	t.end()
	return OK
}

// Rollback discards the copy.
func (t *Tx) Rollback() database.ErrorCode {
	if t.Closed {
		return database.ErrTxClosed
	}
	t.end()
	return OK
}

// bucket resolves a path of nested bucket names; nil if any is missing.
func (t *Tx) bucket(path []string) *Bucket {
	if t.Closed {
		return nil
	}
	b := t.st.Root
	for _, p := range path {
		b = b.Subs[p]
		if b == nil {
			return nil
		}
	}
	return b
}

// HasBucket reports whether the bucket path exists in the view.
func (t *Tx) HasBucket(path []string) bool { return t.bucket(path) != nil }

func pathKey(path []string) string { return strings.Join(path, "/") }

// invalidate marks cursors over the bucket at path (and, when deep, over every
// bucket below it) as unpredictable, except the cursor "except".
func (t *Tx) invalidate(path []string, deep bool, except *Cursor) {
	pk := pathKey(path)
	for _, c := range t.cursors {
		if c == except {
			continue
		}
		ck := pathKey(c.path)
		if ck == pk || (deep && strings.HasPrefix(ck+"/", pk+"/")) {
			c.predictable = false
			c.everInvalidated = true
		}
	}
}

// Put stores key -> value in the bucket at path.
func (t *Tx) Put(path []string, key, value []byte) database.ErrorCode {
	if t.Closed {
		return database.ErrTxClosed
	}
	if !t.Writable {
		return database.ErrTxNotWritable
	}
	if len(key) == 0 {
		return database.ErrKeyRequired
	}
	b := t.bucket(path)
	if _, isBucket := b.Subs[string(key)]; isBucket {
		return database.ErrIncompatibleValue
	}
	b.Keys[string(key)] = append([]byte{}, value...)
	t.invalidate(path, false, nil)
	return OK
}

// Get returns the value (nil: absent; empty non-nil: present without value).
func (t *Tx) Get(path []string, key []byte) []byte {
	if t.Closed || len(key) == 0 {
		return nil
	}
	v, ok := t.bucket(path).Keys[string(key)]
	if !ok {
		return nil
	}
	return append([]byte{}, v...)
}

// Delete removes the key; deleting an absent key is not an error.
func (t *Tx) Delete(path []string, key []byte) database.ErrorCode {
	if t.Closed {
		return database.ErrTxClosed
	}
	if !t.Writable {
		return database.ErrTxNotWritable
	}
	if len(key) == 0 {
		return database.ErrKeyRequired
	}
	b := t.bucket(path)
	if _, isBucket := b.Subs[string(key)]; isBucket {
		return database.ErrIncompatibleValue
	}
	delete(b.Keys, string(key))
	t.invalidate(path, false, nil)
	return OK
}

// CreateBucket creates the nested bucket name in the bucket at path.
func (t *Tx) CreateBucket(path []string, name []byte) database.ErrorCode {
	if t.Closed {
		return database.ErrTxClosed
	}
	if !t.Writable {
		return database.ErrTxNotWritable
	}
	if len(name) == 0 {
		return database.ErrBucketNameRequired
	}
	b := t.bucket(path)
	if _, ok := b.Subs[string(name)]; ok {
		return database.ErrBucketExists
	}
	b.Subs[string(name)] = newBucket()
	t.invalidate(path, false, nil)
	return OK
}

// CreateBucketIfNotExists creates the bucket unless it exists.
func (t *Tx) CreateBucketIfNotExists(path []string, name []byte) database.ErrorCode {
	if t.Closed {
		return database.ErrTxClosed
	}
	if !t.Writable {
		return database.ErrTxNotWritable
	}
	if len(name) == 0 {
		return database.ErrBucketNameRequired
	}
	b := t.bucket(path)
	if _, ok := b.Subs[string(name)]; ok {
		return OK
	}
	return t.CreateBucket(path, name)
}

// DeleteBucket removes the nested bucket with everything below it.
func (t *Tx) DeleteBucket(path []string, name []byte) database.ErrorCode {
	if t.Closed {
		return database.ErrTxClosed
	}
	if !t.Writable {
		return database.ErrTxNotWritable
	}
	b := t.bucket(path)
	if _, ok := b.Subs[string(name)]; !ok {
		return database.ErrBucketNotFound
	}
	delete(b.Subs, string(name))
	t.invalidate(path, false, nil)
	t.invalidate(append(append([]string{}, path...), string(name)), true, nil)
	return OK
}

// KV is one key/value pair.
type KV struct{ K, V []byte }

// ForEach lists the key/value pairs (not the nested buckets) in byte order.
func (t *Tx) ForEach(path []string) ([]KV, database.ErrorCode) {
	if t.Closed {
		return nil, database.ErrTxClosed
	}
	b := t.bucket(path)
	var out []KV
	for _, k := range sortedKeys(b.Keys) {
		out = append(out, KV{[]byte(k), append([]byte{}, b.Keys[k]...)})
	}
	return out, OK
}

// ForEachBucket lists the names of the directly nested buckets in byte order.
func (t *Tx) ForEachBucket(path []string) ([][]byte, database.ErrorCode) {
	if t.Closed {
		return nil, database.ErrTxClosed
	}
	b := t.bucket(path)
	var out [][]byte
	for _, k := range sortedKeys(b.Subs) {
		out = append(out, []byte(k))
	}
	return out, OK
}

// ---------------------------------------------------------------- blocks

// StoreBlock stores raw block bytes under hash.
func (t *Tx) StoreBlock(h Hash, raw []byte) database.ErrorCode {
	if t.Closed {
		return database.ErrTxClosed
	}
	if !t.Writable {
		return database.ErrTxNotWritable
	}
	if _, ok := t.st.Blocks[h]; ok {
		return database.ErrBlockExists
	}
	t.st.Blocks[h] = append([]byte{}, raw...)
	t.st.Order = append(t.st.Order, h)
	return OK
}

// HasBlock reports whether the block exists in the view.
func (t *Tx) HasBlock(h Hash) (bool, database.ErrorCode) {
	if t.Closed {
		return false, database.ErrTxClosed
	}
	_, ok := t.st.Blocks[h]
	return ok, OK
}

// FetchBlock returns the stored bytes.
func (t *Tx) FetchBlock(h Hash) ([]byte, database.ErrorCode) {
	if t.Closed {
		return nil, database.ErrTxClosed
	}
	b, ok := t.st.Blocks[h]
	if !ok {
		return nil, database.ErrBlockNotFound
	}
	return append([]byte{}, b...), OK
}

// FetchBlockRegion returns bytes [off, off+n) of the stored block.
func (t *Tx) FetchBlockRegion(h Hash, off, n uint32) ([]byte, database.ErrorCode) {
	if t.Closed {
		return nil, database.ErrTxClosed
	}
	b, ok := t.st.Blocks[h]
	if !ok {
		return nil, database.ErrBlockNotFound
	}
	end := uint64(off) + uint64(n)
	if end > uint64(len(b)) {
		return nil, database.ErrBlockRegionInvalid
	}
	return append([]byte{}, b[off:end]...), OK
}

// FetchBlockHeader returns the first HeaderLen bytes.
func (t *Tx) FetchBlockHeader(h Hash) ([]byte, database.ErrorCode) {
	return t.FetchBlockRegion(h, 0, HeaderLen)
}

// Prune removes the given blocks (the choice of which blocks a prune call
// removes is implementation-defined; the model is told and only demands that
// exactly these disappear, atomically with the transaction).
func (t *Tx) Prune(hashes []Hash) database.ErrorCode {
	if t.Closed {
		return database.ErrTxClosed
	}
	if !t.Writable {
		return database.ErrTxNotWritable
	}
	for _, h := range hashes {
		delete(t.st.Blocks, h)
		for i, o := range t.st.Order {
			if o == h {
				t.st.Order = append(t.st.Order[:i:i], t.st.Order[i+1:]...)
				break
			}
		}
	}
	return OK
}

// ---------------------------------------------------------------- cursor

type elem struct {
	kind int // 0 key/value pair, 1 nested bucket
	name string
}

func less(a, b elem) bool {
	if a.kind != b.kind {
		return a.kind < b.kind
	}
	return bytes.Compare([]byte(a.name), []byte(b.name)) < 0
}

const (
	posNew = iota
	posAt
	posAtDeleted
	posExhausted
)

// Cursor is the reference cursor.
type Cursor struct {
	tx          *Tx
	path        []string
	state       int
	cur         elem
	predictable bool
	// everInvalidated: the cursor object has lived through a modification of its
	// bucket (and may have been repositioned since)
	everInvalidated bool
}

// Cursor creates a cursor over the bucket at path.
func (t *Tx) Cursor(path []string) *Cursor {
	c := &Cursor{tx: t, path: append([]string{}, path...), state: posNew, predictable: true}
	t.cursors = append(t.cursors, c)
	return c
}

// Predictable reports whether the documentation still determines what the
// cursor returns (false after a foreign modification of its bucket until it is
// repositioned with First/Last/Seek).
func (c *Cursor) Predictable() bool {
	return c.predictable && !c.tx.Closed && c.tx.bucket(c.path) != nil
}

// Positioned reports whether the cursor is on a live pair or bucket.
func (c *Cursor) Positioned() bool { return c.state == posAt }

// AtDeleted reports whether the pair under the cursor was just deleted through it.
func (c *Cursor) AtDeleted() bool { return c.state == posAtDeleted }

// OnBucket reports whether the cursor is positioned on a nested bucket.
func (c *Cursor) OnBucket() bool { return c.state == posAt && c.cur.kind == 1 }

// Path returns the bucket path of the cursor.
func (c *Cursor) Path() []string { return c.path }

// EverInvalidated reports whether the cursor object lived through a modification
// of its bucket (it may have been repositioned since).
func (c *Cursor) EverInvalidated() bool { return c.everInvalidated }

// StateKey canonically renders the cursor for state hashing.
func (c *Cursor) StateKey() string {
	if c.everInvalidated {
		return c.stateKey() + "!"
	}
	return c.stateKey()
}

func (c *Cursor) stateKey() string {
	if !c.Predictable() {
		return pathKey(c.path) + "@?"
	}
	switch c.state {
	case posNew:
		return pathKey(c.path) + "@new"
	case posExhausted:
		return pathKey(c.path) + "@end"
	case posAtDeleted:
		return pathKey(c.path) + "@del:" + hex.EncodeToString([]byte(c.cur.name))
	}
	return pathKey(c.path) + "@" + string(rune('0'+c.cur.kind)) + ":" + hex.EncodeToString([]byte(c.cur.name))
}

func (c *Cursor) elems() []elem {
	b := c.tx.bucket(c.path)
	var out []elem
	for _, k := range sortedKeys(b.Keys) {
		out = append(out, elem{0, k})
	}
	for _, k := range sortedKeys(b.Subs) {
		out = append(out, elem{1, k})
	}
	return out
}

func (c *Cursor) set(e []elem, i int) bool {
	if i < 0 || i >= len(e) {
		c.state = posExhausted
		return false
	}
	c.state = posAt
	c.cur = e[i]
	return true
}

// First positions at the first element.
func (c *Cursor) First() bool {
	if c.tx.Closed {
		return false
	}
	c.predictable = true
	return c.set(c.elems(), 0)
}

// Last positions at the last element.
func (c *Cursor) Last() bool {
	if c.tx.Closed {
		return false
	}
	c.predictable = true
	e := c.elems()
	return c.set(e, len(e)-1)
}

// Seek positions at the first element >= (key/value pair, seek).
func (c *Cursor) Seek(seek []byte) bool {
	if c.tx.Closed {
		return false
	}
	c.predictable = true
	e := c.elems()
	target := elem{0, string(seek)}
	for i := range e {
		if !less(e[i], target) {
			if e[i].kind == 1 {
				// No key/value pair >= seek exists.  interface.go defines Seek in
				// terms of key/value pairs only ("the first key/value pair that is
				// greater than or equal to the passed seek key"); whether the
				// cursor then lands on a nested bucket or is exhausted is not
				// specified, so nothing is predicted until it is repositioned.
				c.predictable = false
			}
			return c.set(e, i)
		}
	}
	return c.set(e, -1)
}

// Next moves forward.
func (c *Cursor) Next() bool {
	if c.tx.Closed || c.state == posNew || c.state == posExhausted {
		return false
	}
	e := c.elems()
	for i := range e {
		if less(c.cur, e[i]) {
			return c.set(e, i)
		}
	}
	return c.set(e, -1)
}

// Prev moves backward.
func (c *Cursor) Prev() bool {
	if c.tx.Closed || c.state == posNew || c.state == posExhausted {
		return false
	}
	e := c.elems()
	for i := len(e) - 1; i >= 0; i-- {
		if less(e[i], c.cur) {
			return c.set(e, i)
		}
	}
	return c.set(e, -1)
}

// Key returns the name under the cursor (nil when not on an element).
func (c *Cursor) Key() []byte {
	if c.tx.Closed || c.state != posAt {
		return nil
	}
	return []byte(c.cur.name)
}

// Value returns the value under the cursor (nil for nested buckets).
func (c *Cursor) Value() []byte {
	if c.tx.Closed || c.state != posAt || c.cur.kind == 1 {
		return nil
	}
	return append([]byte{}, c.tx.bucket(c.path).Keys[c.cur.name]...)
}

// Delete removes the pair under the cursor without invalidating this cursor.
func (c *Cursor) Delete() database.ErrorCode {
	if c.tx.Closed {
		return database.ErrTxClosed
	}
	if !c.tx.Writable {
		return database.ErrTxNotWritable
	}
	if c.state == posAt && c.cur.kind == 1 {
		return database.ErrIncompatibleValue
	}
	if c.state != posAt {
		// exhausted / never positioned: the documentation names no code; callers
		// of the model must not compare this case.
		return database.ErrIncompatibleValue
	}
	delete(c.tx.bucket(c.path).Keys, c.cur.name)
	c.state = posAtDeleted
	c.tx.invalidate(c.path, false, c)
	return OK
}
