// Package refblock is a deliberately naive contextual block validator written
// from the protocol definitions (Bitcoin Core's CheckBlockHeader / CheckBlock /
// ContextualCheckBlockHeader / ContextualCheckBlock / ConnectBlock and the BIPs
// 16, 30, 34, 65, 66, 68, 113, 141), used as the oracle of check C01.  It calls
// nothing of btcd's blockchain package: sizes, hashes, merkle roots, sigop
// counts, subsidies, median times and the UTXO fold are computed here with plain
// slices/maps and math/big; scripts are executed by the independent interpreter
// verif/ref/refscript.  wire.MsgBlock / wire.MsgTx are used only as dumb
// containers.
//
// Validate returns the *set* of violated rule classes of the first failing
// stage (stage A: everything that does not need the UTXO set; stage B: connect),
// so that a test-case generator can assert that its candidate violates exactly
// the rule it was built for and nothing else.
package refblock

import (
	"bytes"
	"crypto/sha256"
	"encoding/binary"
	"math/big"
	"sort"

	"github.com/btcsuite/btcd/wire/v2"

	"verif/ref/refscript"
)

// Params are the consensus parameters the reference needs.
type Params struct {
	PowLimit *big.Int
	// ExpectedBits returns the required nBits of the block following the given
	// header chain (genesis first) with the given timestamp.
	ExpectedBits func(headers []wire.BlockHeader, blockTime int64) uint32
	// Buried activation heights: the rule applies to blocks with height >= H.
	BIP34Height, BIP65Height, BIP66Height  int32
	CSVHeight, SegwitHeight, TaprootHeight int32
	Maturity                               int32
	HalvingInterval                        int32
	BIP16Time                              int64
	// BIP30 is enforced for every block (true for all lab parameter sets: no
	// BIP34 hash is configured, so the "BIP34 makes BIP30 redundant" shortcut
	// never applies).
	BIP30Always bool
	// BIP94 (testnet4): the first block of a retarget period (height % Window
	// == 0) must not be more than 600 s earlier than its parent.
	BIP94  bool
	Window int32
}

const (
	MaxBlockWeight   = 4_000_000
	MaxBaseSize      = 1_000_000
	MaxSigOpCost     = 80_000
	MaxMoney         = 21_000_000 * 100_000_000
	MaxFutureSeconds = 2 * 60 * 60
	LockTimeThresh   = 500_000_000
	seqDisable       = 1 << 31
	seqTypeFlag      = 1 << 22
	seqMask          = 0xffff
	MaxScriptSize    = 10_000
)

// Coin is one unspent output.
type Coin struct {
	Value    int64
	Script   []byte
	Height   int32
	Coinbase bool
}

// State is a chain tip: all headers from genesis and the UTXO set.
type State struct {
	Headers []wire.BlockHeader
	Utxo    map[wire.OutPoint]Coin
}

// NewState starts at the genesis block (its coinbase is never spendable).
func NewState(genesis *wire.MsgBlock) *State {
	return &State{Headers: []wire.BlockHeader{genesis.Header}, Utxo: map[wire.OutPoint]Coin{}}
}

// Clone copies the state.
func (s *State) Clone() *State {
	c := &State{Headers: append([]wire.BlockHeader(nil), s.Headers...), Utxo: make(map[wire.OutPoint]Coin, len(s.Utxo))}
	for k, v := range s.Utxo {
		c.Utxo[k] = v
	}
	return c
}

// Height of the tip.
func (s *State) Height() int32 { return int32(len(s.Headers) - 1) }

// MTPAt is the median time past of the block at the given height (BIP113: the
// median of the timestamps of that block and its up to 10 predecessors).
func (s *State) MTPAt(height int32) int64 {
	if height < 0 {
		height = 0
	}
	var ts []int64
	for h := height; h >= 0 && h > height-11; h-- {
		ts = append(ts, s.Headers[h].Timestamp.Unix())
	}
	sort.Slice(ts, func(i, j int) bool { return ts[i] < ts[j] })
	return ts[len(ts)/2]
}

func unspendable(script []byte) bool {
	return (len(script) > 0 && script[0] == refscript.OP_RETURN) || len(script) > MaxScriptSize
}

// Apply connects a block that is assumed valid.
func (s *State) Apply(b *wire.MsgBlock) {
	h := s.Height() + 1
	for ti, tx := range b.Transactions {
		if ti > 0 {
			for _, in := range tx.TxIn {
				delete(s.Utxo, in.PreviousOutPoint)
			}
		}
		addOutputs(s.Utxo, tx, h, ti == 0)
	}
	s.Headers = append(s.Headers, b.Header)
}

func addOutputs(u map[wire.OutPoint]Coin, tx *wire.MsgTx, h int32, cb bool) {
	id := TxID(tx)
	for oi, out := range tx.TxOut {
		if unspendable(out.PkScript) {
			continue
		}
		u[wire.OutPoint{Hash: id, Index: uint32(oi)}] = Coin{Value: out.Value, Script: out.PkScript, Height: h, Coinbase: cb}
	}
}

// ---------------------------------------------------------------------------
// serialization, hashes, sizes (naive)

func putVarInt(buf *bytes.Buffer, v uint64) {
	switch {
	case v < 0xfd:
		buf.WriteByte(byte(v))
	case v <= 0xffff:
		buf.WriteByte(0xfd)
		var b [2]byte
		binary.LittleEndian.PutUint16(b[:], uint16(v))
		buf.Write(b[:])
	case v <= 0xffffffff:
		buf.WriteByte(0xfe)
		var b [4]byte
		binary.LittleEndian.PutUint32(b[:], uint32(v))
		buf.Write(b[:])
	default:
		buf.WriteByte(0xff)
		var b [8]byte
		binary.LittleEndian.PutUint64(b[:], v)
		buf.Write(b[:])
	}
}

func put32(buf *bytes.Buffer, v uint32) {
	var b [4]byte
	binary.LittleEndian.PutUint32(b[:], v)
	buf.Write(b[:])
}

// HasWitness reports whether any input carries witness data.
func HasWitness(tx *wire.MsgTx) bool {
	for _, in := range tx.TxIn {
		if len(in.Witness) > 0 {
			return true
		}
	}
	return false
}

// SerTx serializes a transaction (BIP144 extended form when withWitness and the
// transaction has witness data).
func SerTx(tx *wire.MsgTx, withWitness bool) []byte {
	var buf bytes.Buffer
	ext := withWitness && HasWitness(tx)
	put32(&buf, uint32(tx.Version))
	if ext {
		buf.WriteByte(0)
		buf.WriteByte(1)
	}
	putVarInt(&buf, uint64(len(tx.TxIn)))
	for _, in := range tx.TxIn {
		buf.Write(in.PreviousOutPoint.Hash[:])
		put32(&buf, in.PreviousOutPoint.Index)
		putVarInt(&buf, uint64(len(in.SignatureScript)))
		buf.Write(in.SignatureScript)
		put32(&buf, in.Sequence)
	}
	putVarInt(&buf, uint64(len(tx.TxOut)))
	for _, out := range tx.TxOut {
		var b [8]byte
		binary.LittleEndian.PutUint64(b[:], uint64(out.Value))
		buf.Write(b[:])
		putVarInt(&buf, uint64(len(out.PkScript)))
		buf.Write(out.PkScript)
	}
	if ext {
		for _, in := range tx.TxIn {
			putVarInt(&buf, uint64(len(in.Witness)))
			for _, it := range in.Witness {
				putVarInt(&buf, uint64(len(it)))
				buf.Write(it)
			}
		}
	}
	put32(&buf, tx.LockTime)
	return buf.Bytes()
}

func dsha(b []byte) [32]byte {
	a := sha256.Sum256(b)
	return sha256.Sum256(a[:])
}

// TxID / WTxID.
func TxID(tx *wire.MsgTx) [32]byte  { return dsha(SerTx(tx, false)) }
func WTxID(tx *wire.MsgTx) [32]byte { return dsha(SerTx(tx, true)) }

// HeaderHash is the block hash.
func HeaderHash(h *wire.BlockHeader) [32]byte {
	var buf bytes.Buffer
	put32(&buf, uint32(h.Version))
	buf.Write(h.PrevBlock[:])
	buf.Write(h.MerkleRoot[:])
	put32(&buf, uint32(h.Timestamp.Unix()))
	put32(&buf, h.Bits)
	put32(&buf, h.Nonce)
	return dsha(buf.Bytes())
}

func varIntLen(v uint64) int {
	switch {
	case v < 0xfd:
		return 1
	case v <= 0xffff:
		return 3
	case v <= 0xffffffff:
		return 5
	}
	return 9
}

// BlockSizes returns the stripped size, the total size and the weight.
func BlockSizes(b *wire.MsgBlock) (base, total, weight int) {
	base = 80 + varIntLen(uint64(len(b.Transactions)))
	total = base
	for _, tx := range b.Transactions {
		base += len(SerTx(tx, false))
		total += len(SerTx(tx, true))
	}
	return base, total, 3*base + total
}

// merkle returns the root and whether the tree is "mutated" (two identical
// hashes paired at some level: CVE-2012-2459).
func merkle(leaves [][32]byte) (root [32]byte, mutated bool) {
	if len(leaves) == 0 {
		return root, false
	}
	level := append([][32]byte(nil), leaves...)
	for len(level) > 1 {
		for i := 0; i+1 < len(level); i += 2 {
			if level[i] == level[i+1] {
				mutated = true
			}
		}
		if len(level)%2 == 1 {
			level = append(level, level[len(level)-1])
		}
		next := make([][32]byte, 0, len(level)/2)
		for i := 0; i < len(level); i += 2 {
			var buf [64]byte
			copy(buf[:32], level[i][:])
			copy(buf[32:], level[i+1][:])
			next = append(next, dsha(buf[:]))
		}
		level = next
	}
	return level[0], mutated
}

// ---------------------------------------------------------------------------
// compact targets

// DecodeCompact is arith_uint256::SetCompact.
func DecodeCompact(c uint32) (v *big.Int, negative, overflow bool) {
	size := c >> 24
	word := int64(c & 0x007fffff)
	if size <= 3 {
		word >>= 8 * (3 - size)
		v = big.NewInt(word)
	} else {
		v = new(big.Int).Lsh(big.NewInt(word), uint(8*(size-3)))
	}
	negative = word != 0 && c&0x00800000 != 0
	overflow = word != 0 && (size > 34 || (word > 0xff && size > 33) || (word > 0xffff && size > 32))
	return
}

func hashNum(h [32]byte) *big.Int {
	var r [32]byte
	for i := 0; i < 32; i++ {
		r[i] = h[31-i]
	}
	return new(big.Int).SetBytes(r[:])
}

// ---------------------------------------------------------------------------
// sigops

func sigOpCount(script []byte, accurate bool) int {
	n := 0
	last := byte(refscript.OP_INVALIDOPCODE)
	pc := 0
	for pc < len(script) {
		op, _, next, ok := refscript.GetOp(script, pc)
		if !ok {
			break
		}
		pc = next
		switch op {
		case refscript.OP_CHECKSIG, refscript.OP_CHECKSIGVERIFY:
			n++
		case refscript.OP_CHECKMULTISIG, refscript.OP_CHECKMULTISIGVERIFY:
			if accurate && last >= refscript.OP_1 && last <= refscript.OP_16 {
				n += int(last) - (refscript.OP_1 - 1)
			} else {
				n += 20
			}
		}
		last = op
	}
	return n
}

// lastPush returns the data of the last push of a push-only script.
func lastPush(scriptSig []byte) ([]byte, bool) {
	var data []byte
	pc := 0
	for pc < len(scriptSig) {
		op, d, next, ok := refscript.GetOp(scriptSig, pc)
		if !ok || op > refscript.OP_16 {
			return nil, false
		}
		data = d
		pc = next
	}
	return data, true
}

func p2shSigOps(scriptSig []byte) int {
	sub, ok := lastPush(scriptSig)
	if !ok {
		return 0
	}
	return sigOpCount(sub, true)
}

func witnessProgSigOps(version int, prog []byte, witness [][]byte) int {
	if version == 0 {
		if len(prog) == 20 {
			return 1
		}
		if len(prog) == 32 && len(witness) > 0 {
			return sigOpCount(witness[len(witness)-1], true)
		}
	}
	return 0
}

func witnessSigOps(scriptSig, spk []byte, witness [][]byte) int {
	if v, prog, ok := refscript.IsWitnessProgram(spk); ok {
		return witnessProgSigOps(v, prog, witness)
	}
	if refscript.IsPayToScriptHash(spk) && refscript.IsPushOnly(scriptSig) {
		sub, _ := lastPush(scriptSig)
		if v, prog, ok := refscript.IsWitnessProgram(sub); ok {
			return witnessProgSigOps(v, prog, witness)
		}
	}
	return 0
}

func legacySigOps(tx *wire.MsgTx) int {
	n := 0
	for _, in := range tx.TxIn {
		n += sigOpCount(in.SignatureScript, false)
	}
	for _, out := range tx.TxOut {
		n += sigOpCount(out.PkScript, false)
	}
	return n
}

// ---------------------------------------------------------------------------
// small predicates

func isNull(o *wire.OutPoint) bool {
	return o.Index == 0xffffffff && o.Hash == [32]byte{}
}

// IsCoinbase: exactly one input with a null prevout.
func IsCoinbase(tx *wire.MsgTx) bool {
	return len(tx.TxIn) == 1 && isNull(&tx.TxIn[0].PreviousOutPoint)
}

// Subsidy of a block at the given height.
func Subsidy(height int32, p *Params) int64 {
	halvings := height / p.HalvingInterval
	if halvings >= 64 {
		return 0
	}
	return int64(50*100_000_000) >> uint(halvings)
}

func isFinal(tx *wire.MsgTx, height int32, cutoff int64) bool {
	if tx.LockTime == 0 {
		return true
	}
	limit := cutoff
	if tx.LockTime < LockTimeThresh {
		limit = int64(height)
	}
	if int64(tx.LockTime) < limit {
		return true
	}
	for _, in := range tx.TxIn {
		if in.Sequence != 0xffffffff {
			return false
		}
	}
	return true
}

// scriptNumPush is "CScript() << n".
func scriptNumPush(n int64) []byte {
	if n == 0 {
		return []byte{refscript.OP_0}
	}
	if n == -1 || (n >= 1 && n <= 16) {
		return []byte{byte(n + (refscript.OP_1 - 1))}
	}
	neg := n < 0
	if neg {
		n = -n
	}
	var b []byte
	for n > 0 {
		b = append(b, byte(n&0xff))
		n >>= 8
	}
	if b[len(b)-1]&0x80 != 0 {
		if neg {
			b = append(b, 0x80)
		} else {
			b = append(b, 0)
		}
	} else if neg {
		b[len(b)-1] |= 0x80
	}
	return append([]byte{byte(len(b))}, b...)
}

// HeightPrefixOK is the BIP34 rule: the coinbase script starts with the
// minimally serialized height ("CScript() << height").
func HeightPrefixOK(script []byte, height int32) bool {
	return bytes.HasPrefix(script, scriptNumPush(int64(height)))
}

var witnessMagic = []byte{0x6a, 0x24, 0xaa, 0x21, 0xa9, 0xed}

func commitmentIndex(cb *wire.MsgTx) int {
	pos := -1
	for i, out := range cb.TxOut {
		if len(out.PkScript) >= 38 && bytes.Equal(out.PkScript[:6], witnessMagic) {
			pos = i
		}
	}
	return pos
}

type set map[string]bool

func (s set) list() []string {
	var out []string
	for k := range s {
		out = append(out, k)
	}
	sort.Strings(out)
	return out
}

// Report is the detailed result of Check.
type Report struct {
	Violations []string // sorted rule classes of the first failing stage; empty: valid
	BaseSize   int
	Weight     int
	LegacyCost int // 4 * legacy sigops (the context-free count)
	SigOpCost  int // full cost; only meaningful when the connect stage was reached
}

// Validate returns the sorted set of rule classes the block violates as the
// next block after state s (empty: the block is valid).  now is the node's
// adjusted time.
func Validate(p *Params, s *State, b *wire.MsgBlock, now int64) []string {
	return Check(p, s, b, now).Violations
}

// Check is Validate with measurements.
func Check(p *Params, s *State, b *wire.MsgBlock, now int64) (rep Report) {
	v := set{}
	defer func() { rep.Violations = v.list() }()
	height := s.Height() + 1
	prevMTP := s.MTPAt(s.Height())
	btime := b.Header.Timestamp.Unix()

	// ---- header, context free
	target, neg, over := DecodeCompact(b.Header.Bits)
	if neg || over || target.Sign() == 0 || target.Cmp(p.PowLimit) > 0 {
		v["bits-range"] = true
	} else if hashNum(HeaderHash(&b.Header)).Cmp(target) > 0 {
		v["pow-hash"] = true
	}
	if btime > now+MaxFutureSeconds {
		v["time-future"] = true
	}
	// ---- header, contextual
	if b.Header.Bits != p.ExpectedBits(s.Headers, btime) {
		v["bits-expected"] = true
	}
	if btime <= prevMTP {
		v["time-mtp"] = true
	}
	if p.BIP94 && height%p.Window == 0 && btime < s.Headers[s.Height()].Timestamp.Unix()-600 {
		v["timewarp"] = true
	}
	if (b.Header.Version < 2 && height >= p.BIP34Height) ||
		(b.Header.Version < 3 && height >= p.BIP66Height) ||
		(b.Header.Version < 4 && height >= p.BIP65Height) {
		v["version"] = true
	}

	// ---- block, context free
	if len(b.Transactions) == 0 {
		v["no-tx"] = true
		return
	}
	if !IsCoinbase(b.Transactions[0]) {
		v["first-not-coinbase"] = true
	}
	for _, tx := range b.Transactions[1:] {
		if IsCoinbase(tx) {
			v["multiple-coinbase"] = true
		}
	}
	ids := make([][32]byte, len(b.Transactions))
	seen := map[[32]byte]bool{}
	for i, tx := range b.Transactions {
		ids[i] = TxID(tx)
		if seen[ids[i]] {
			v["dup-tx"] = true
		}
		seen[ids[i]] = true
	}
	root, mutated := merkle(ids)
	if root != b.Header.MerkleRoot {
		v["merkle"] = true
	}
	if mutated {
		v["dup-tx"] = true
	}
	base, _, weight := BlockSizes(b)
	rep.BaseSize, rep.Weight = base, weight
	if base > MaxBaseSize {
		v["size"] = true
	}
	if weight > MaxBlockWeight {
		v["weight"] = true
	}
	legacy := 0
	for _, tx := range b.Transactions {
		if len(tx.TxIn) == 0 {
			v["tx-no-inputs"] = true
		}
		if len(tx.TxOut) == 0 {
			v["tx-no-outputs"] = true
		}
		var sum int64
		for _, out := range tx.TxOut {
			if out.Value < 0 || out.Value > MaxMoney {
				v["txout-range"] = true
				continue
			}
			sum += out.Value
			if sum > MaxMoney {
				v["txout-range"] = true
			}
		}
		ins := map[wire.OutPoint]bool{}
		for _, in := range tx.TxIn {
			if ins[in.PreviousOutPoint] {
				v["dup-input"] = true
			}
			ins[in.PreviousOutPoint] = true
		}
		if IsCoinbase(tx) {
			if n := len(tx.TxIn[0].SignatureScript); n < 2 || n > 100 {
				v["cb-script-len"] = true
			}
		} else {
			for i := range tx.TxIn {
				if isNull(&tx.TxIn[i].PreviousOutPoint) {
					v["null-prevout"] = true
				}
			}
		}
		legacy += legacySigOps(tx)
	}
	rep.LegacyCost = legacy * 4
	if legacy*4 > MaxSigOpCost {
		v["sigops"] = true
	}

	// ---- block, contextual
	csv := height >= p.CSVHeight
	segwit := height >= p.SegwitHeight
	cutoff := btime
	if csv {
		cutoff = prevMTP
	}
	for _, tx := range b.Transactions {
		if !isFinal(tx, height, cutoff) {
			v["nonfinal"] = true
		}
	}
	cb := b.Transactions[0]
	if !IsCoinbase(cb) {
		// every remaining rule of this stage is about the coinbase
		return
	}
	if height >= p.BIP34Height {
		if !HeightPrefixOK(cb.TxIn[0].SignatureScript, height) {
			v["bip34"] = true
		}
	}
	if segwit {
		have := false
		if pos := commitmentIndex(cb); pos >= 0 {
			have = true
			w := cb.TxIn[0].Witness
			if len(w) != 1 || len(w[0]) != 32 {
				v["wc-nonce"] = true
			} else {
				wids := make([][32]byte, len(b.Transactions))
				for i, tx := range b.Transactions {
					if i > 0 {
						wids[i] = WTxID(tx)
					}
				}
				wroot, _ := merkle(wids)
				var buf [64]byte
				copy(buf[:32], wroot[:])
				copy(buf[32:], w[0])
				c := dsha(buf[:])
				if !bytes.Equal(c[:], cb.TxOut[pos].PkScript[6:38]) {
					v["wc-mismatch"] = true
				}
			}
		}
		if !have {
			for _, tx := range b.Transactions {
				if HasWitness(tx) {
					v["wc-unexpected-witness"] = true
				}
			}
		}
	}
	if len(v) > 0 {
		return
	}

	// ---- connect
	utxo := s.Utxo
	if p.BIP30Always {
		for i, tx := range b.Transactions {
			for oi := range tx.TxOut {
				if _, ok := utxo[wire.OutPoint{Hash: ids[i], Index: uint32(oi)}]; ok {
					v["bip30"] = true
				}
			}
		}
	}
	var flags refscript.Flags
	if btime >= p.BIP16Time {
		flags |= refscript.P2SH
	}
	if height >= p.BIP66Height {
		flags |= refscript.DERSIG
	}
	if height >= p.BIP65Height {
		flags |= refscript.CHECKLOCKTIMEVERIFY
	}
	if csv {
		flags |= refscript.CHECKSEQUENCEVERIFY
	}
	if segwit {
		flags |= refscript.WITNESS | refscript.NULLDUMMY
	}
	if height >= p.TaprootHeight {
		flags |= refscript.TAPROOT
	}
	spent := map[wire.OutPoint]bool{}
	created := map[wire.OutPoint]Coin{}
	lookup := func(o wire.OutPoint) (Coin, bool) {
		if spent[o] {
			return Coin{}, false
		}
		if c, ok := created[o]; ok {
			return c, true
		}
		c, ok := utxo[o]
		return c, ok
	}
	var fees int64
	cost := legacySigOps(cb) * 4
	for ti, tx := range b.Transactions {
		if ti == 0 {
			addOutputs(created, tx, height, true)
			continue
		}
		coins := make([]Coin, len(tx.TxIn))
		ok := true
		for i, in := range tx.TxIn {
			c, found := lookup(in.PreviousOutPoint)
			if !found {
				v["missing-input"] = true
				ok = false
				continue
			}
			coins[i] = c
		}
		if !ok {
			// nothing else can be said about this transaction
			continue
		}
		var inSum int64
		for _, c := range coins {
			if c.Coinbase && height-c.Height < p.Maturity {
				v["immature"] = true
			}
			if c.Value < 0 || c.Value > MaxMoney {
				v["input-range"] = true
			}
			inSum += c.Value
			if inSum > MaxMoney {
				v["input-range"] = true
			}
		}
		var outSum int64
		for _, out := range tx.TxOut {
			outSum += out.Value
		}
		if inSum < outSum {
			v["value"] = true
		} else {
			fees += inSum - outSum
		}
		// BIP68
		if csv && uint32(tx.Version) >= 2 {
			minHeight, minTime := int32(-1), int64(-1)
			for i, in := range tx.TxIn {
				if in.Sequence&seqDisable != 0 {
					continue
				}
				ch := coins[i].Height
				if in.Sequence&seqTypeFlag != 0 {
					ct := s.MTPAt(ch - 1)
					if t := ct + int64(in.Sequence&seqMask)<<9 - 1; t > minTime {
						minTime = t
					}
				} else if h := ch + int32(in.Sequence&seqMask) - 1; h > minHeight {
					minHeight = h
				}
			}
			if minHeight >= height || minTime >= prevMTP {
				v["bip68"] = true
			}
		}
		// sigop cost
		cost += legacySigOps(tx) * 4
		for i, in := range tx.TxIn {
			if flags&refscript.P2SH != 0 && refscript.IsPayToScriptHash(coins[i].Script) {
				cost += p2shSigOps(in.SignatureScript) * 4
			}
			if flags&refscript.WITNESS != 0 {
				cost += witnessSigOps(in.SignatureScript, coins[i].Script, in.Witness)
			}
		}
		// scripts
		outs := make([]*wire.TxOut, len(coins))
		for i, c := range coins {
			outs[i] = &wire.TxOut{Value: c.Value, PkScript: c.Script}
		}
		for i, in := range tx.TxIn {
			var wit [][]byte
			for _, it := range in.Witness {
				wit = append(wit, it)
			}
			chk := &refscript.Checker{Tx: tx, Idx: i, Amount: coins[i].Value, Spent: outs}
			if e := refscript.VerifyScript(in.SignatureScript, coins[i].Script, wit, flags, chk); e != "" {
				v["script"] = true
			}
		}
		for _, in := range tx.TxIn {
			spent[in.PreviousOutPoint] = true
		}
		addOutputs(created, tx, height, false)
	}
	rep.SigOpCost = cost
	if cost > MaxSigOpCost {
		v["sigops"] = true
	}
	var cbOut int64
	for _, out := range cb.TxOut {
		cbOut += out.Value
	}
	if _, bad := v["missing-input"]; !bad {
		if cbOut > Subsidy(height, p)+fees {
			v["cb-value"] = true
		}
	}
	return
}
