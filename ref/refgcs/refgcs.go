// Package refgcs is a deliberately naive reference model of BIP158 Golomb-coded
// sets and BIP157 filter headers, written from the BIPs and the SipHash paper.
// It shares no code with btcd's btcutil/gcs, github.com/aead/siphash or
// github.com/kkdai/bstream.
package refgcs

import (
	"crypto/sha256"
	"encoding/binary"
	"errors"
	"math/big"
	"math/bits"
	"sort"
)

// ---------------------------------------------------------------------------
// SipHash-2-4 (Aumasson & Bernstein), 64-bit output.

func rotl(x uint64, b uint) uint64 { return (x << b) | (x >> (64 - b)) }

type sipState struct{ v0, v1, v2, v3 uint64 }

func (s *sipState) round() {
	s.v0 += s.v1
	s.v1 = rotl(s.v1, 13)
	s.v1 ^= s.v0
	s.v0 = rotl(s.v0, 32)
	s.v2 += s.v3
	s.v3 = rotl(s.v3, 16)
	s.v3 ^= s.v2
	s.v0 += s.v3
	s.v3 = rotl(s.v3, 21)
	s.v3 ^= s.v0
	s.v2 += s.v1
	s.v1 = rotl(s.v1, 17)
	s.v1 ^= s.v2
	s.v2 = rotl(s.v2, 32)
}

// SipHash24 computes SipHash-2-4 of data under the 128-bit key (k0 = first 8 key
// bytes little endian, k1 = last 8 key bytes little endian).
func SipHash24(key [16]byte, data []byte) uint64 {
	k0 := binary.LittleEndian.Uint64(key[0:8])
	k1 := binary.LittleEndian.Uint64(key[8:16])
	s := sipState{
		v0: k0 ^ 0x736f6d6570736575,
		v1: k1 ^ 0x646f72616e646f6d,
		v2: k0 ^ 0x6c7967656e657261,
		v3: k1 ^ 0x7465646279746573,
	}
	n := len(data)
	full := n / 8
	for i := 0; i < full; i++ {
		m := binary.LittleEndian.Uint64(data[8*i:])
		s.v3 ^= m
		s.round()
		s.round()
		s.v0 ^= m
	}
	// last block: remaining bytes little endian, top byte = len mod 256
	var last uint64
	rest := data[8*full:]
	for i := 0; i < len(rest); i++ {
		last |= uint64(rest[i]) << (8 * uint(i))
	}
	last |= uint64(n&0xff) << 56
	s.v3 ^= last
	s.round()
	s.round()
	s.v0 ^= last
	s.v2 ^= 0xff
	s.round()
	s.round()
	s.round()
	s.round()
	return s.v0 ^ s.v1 ^ s.v2 ^ s.v3
}

// ---------------------------------------------------------------------------
// BIP158 hash_to_range: (SipHash(item) * F) >> 64 with F = N*M.

// Reduce returns floor(h*F / 2^64) using the 128-bit product.
func Reduce(h, F uint64) uint64 {
	hi, _ := bits.Mul64(h, F)
	return hi
}

// ReduceBig is the same with math/big (used to self-check Reduce).
func ReduceBig(h, F uint64) uint64 {
	p := new(big.Int).Mul(new(big.Int).SetUint64(h), new(big.Int).SetUint64(F))
	p.Rsh(p, 64)
	return p.Uint64()
}

// HashToRange maps an item to [0, F).
func HashToRange(key [16]byte, item []byte, F uint64) uint64 {
	return Reduce(SipHash24(key, item), F)
}

// ---------------------------------------------------------------------------
// bit stream, most significant bit first, zero padded to a byte boundary.

// BitWriter appends bits MSB-first.
type BitWriter struct {
	buf  []byte
	nbit uint64
}

func (w *BitWriter) WriteBit(b bool) {
	if w.nbit%8 == 0 {
		w.buf = append(w.buf, 0)
	}
	if b {
		w.buf[len(w.buf)-1] |= 0x80 >> (w.nbit % 8)
	}
	w.nbit++
}

// WriteBits writes the n low bits of v, most significant first.
func (w *BitWriter) WriteBits(v uint64, n int) {
	for i := n - 1; i >= 0; i-- {
		w.WriteBit((v>>uint(i))&1 == 1)
	}
}

func (w *BitWriter) Bytes() []byte { return append([]byte(nil), w.buf...) }
func (w *BitWriter) Bits() uint64  { return w.nbit }

// BitReader reads bits MSB-first.
type BitReader struct {
	buf []byte
	pos uint64
}

func NewBitReader(b []byte) *BitReader { return &BitReader{buf: b} }

var ErrEOF = errors.New("refgcs: out of bits")

func (r *BitReader) ReadBit() (bool, error) {
	if r.pos >= uint64(len(r.buf))*8 {
		return false, ErrEOF
	}
	b := r.buf[r.pos/8]&(0x80>>(r.pos%8)) != 0
	r.pos++
	return b, nil
}

func (r *BitReader) ReadBits(n int) (uint64, error) {
	var v uint64
	for i := 0; i < n; i++ {
		b, err := r.ReadBit()
		if err != nil {
			return 0, err
		}
		v <<= 1
		if b {
			v |= 1
		}
	}
	return v, nil
}

func (r *BitReader) Pos() uint64 { return r.pos }

// GolombEncode writes x with parameter P: quotient x>>P in unary (q ones and a
// zero), then the P low bits big endian.
func GolombEncode(w *BitWriter, x uint64, P uint8) {
	q := x >> P
	for ; q > 0; q-- {
		w.WriteBit(true)
	}
	w.WriteBit(false)
	w.WriteBits(x, int(P))
}

// GolombDecode is the inverse.
func GolombDecode(r *BitReader, P uint8) (uint64, error) {
	var q uint64
	for {
		b, err := r.ReadBit()
		if err != nil {
			return 0, err
		}
		if !b {
			break
		}
		q++
	}
	rem, err := r.ReadBits(int(P))
	if err != nil {
		return 0, err
	}
	return (q << P) + rem, nil
}

// ---------------------------------------------------------------------------
// filter construction / matching

// Values returns the sorted hashed values of items (N = len(items), duplicates
// kept, as BIP158's hashed_set_construct does for the list it is given).
func Values(M uint64, key [16]byte, items [][]byte) []uint64 {
	F := uint64(len(items)) * M
	vals := make([]uint64, len(items))
	for i, it := range items {
		vals[i] = HashToRange(key, it, F)
	}
	sort.Slice(vals, func(i, j int) bool { return vals[i] < vals[j] })
	return vals
}

// Encode returns the Golomb-Rice coded delta stream of the sorted values.
func Encode(P uint8, vals []uint64) []byte {
	var w BitWriter
	var last uint64
	for _, v := range vals {
		GolombEncode(&w, v-last, P)
		last = v
	}
	return w.Bytes()
}

// Build returns the raw filter bytes (without N) for the items.
func Build(P uint8, M uint64, key [16]byte, items [][]byte) []byte {
	if len(items) == 0 {
		return nil
	}
	return Encode(P, Values(M, key, items))
}

// Decode reads n values back from the stream.
func Decode(n uint32, P uint8, data []byte) ([]uint64, error) {
	r := NewBitReader(data)
	out := make([]uint64, 0, n)
	var last uint64
	for i := uint32(0); i < n; i++ {
		d, err := GolombDecode(r, P)
		if err != nil {
			return nil, err
		}
		last += d
		out = append(out, last)
	}
	// the rest must be padding: fewer than 8 bits, all zero
	if uint64(len(data))*8-r.Pos() >= 8 {
		return nil, errors.New("refgcs: trailing bytes")
	}
	for {
		b, err := r.ReadBit()
		if err != nil {
			break
		}
		if b {
			return nil, errors.New("refgcs: non-zero padding")
		}
	}
	return out, nil
}

// CompactSize is the Bitcoin variable length integer.
func CompactSize(n uint64) []byte {
	switch {
	case n < 0xfd:
		return []byte{byte(n)}
	case n <= 0xffff:
		return []byte{0xfd, byte(n), byte(n >> 8)}
	case n <= 0xffffffff:
		return []byte{0xfe, byte(n), byte(n >> 8), byte(n >> 16), byte(n >> 24)}
	}
	b := make([]byte, 9)
	b[0] = 0xff
	binary.LittleEndian.PutUint64(b[1:], n)
	return b
}

// NBytes is the BIP158 wire form: CompactSize(N) || stream.
func NBytes(n uint32, data []byte) []byte {
	return append(CompactSize(uint64(n)), data...)
}

// MatchValue reports whether the item's value is in vals (vals built with the same N, M, key).
func MatchValue(vals []uint64, M uint64, key [16]byte, item []byte) bool {
	F := uint64(len(vals)) * M
	t := HashToRange(key, item, F)
	for _, v := range vals {
		if v == t {
			return true
		}
	}
	return false
}

// ---------------------------------------------------------------------------
// BIP158 basic filter and BIP157 headers

const (
	BasicP = 19
	BasicM = 784931
)

// BasicElements returns the de-duplicated element set of the basic filter: every
// output script except empty ones and those starting with OP_RETURN (0x6a), and
// every spent previous output script except empty ones.  The result is sorted
// bytewise so that it is canonical.
func BasicElements(outputScripts [][]byte, prevScripts [][]byte) [][]byte {
	set := map[string]bool{}
	for _, s := range outputScripts {
		if len(s) == 0 || s[0] == 0x6a {
			continue
		}
		set[string(s)] = true
	}
	for _, s := range prevScripts {
		if len(s) == 0 {
			continue
		}
		set[string(s)] = true
	}
	keys := make([]string, 0, len(set))
	for k := range set {
		keys = append(keys, k)
	}
	sort.Strings(keys)
	out := make([][]byte, len(keys))
	for i, k := range keys {
		out[i] = []byte(k)
	}
	return out
}

// BasicKey is the first 16 bytes of the block hash (as serialized, little endian).
func BasicKey(blockHash [32]byte) [16]byte {
	var k [16]byte
	copy(k[:], blockHash[:16])
	return k
}

// BasicFilter returns the serialized (N-prefixed) basic filter.
func BasicFilter(blockHash [32]byte, elements [][]byte) []byte {
	return NBytes(uint32(len(elements)), Build(BasicP, BasicM, BasicKey(blockHash), elements))
}

// DSHA is double SHA-256.
func DSHA(b []byte) [32]byte {
	a := sha256.Sum256(b)
	return sha256.Sum256(a[:])
}

// FilterHash is the double-SHA256 of the serialized filter.
func FilterHash(nbytes []byte) [32]byte { return DSHA(nbytes) }

// FilterHeader is double-SHA256(filterHash || prevHeader) (BIP157).
func FilterHeader(filterHash, prev [32]byte) [32]byte {
	var b [64]byte
	copy(b[:32], filterHash[:])
	copy(b[32:], prev[:])
	return DSHA(b[:])
}

// HeaderHash80 is the block hash of an 80-byte serialized header.
func HeaderHash80(version int32, prev, merkle [32]byte, time, bits, nonce uint32) [32]byte {
	var b [80]byte
	binary.LittleEndian.PutUint32(b[0:], uint32(version))
	copy(b[4:], prev[:])
	copy(b[36:], merkle[:])
	binary.LittleEndian.PutUint32(b[68:], time)
	binary.LittleEndian.PutUint32(b[72:], bits)
	binary.LittleEndian.PutUint32(b[76:], nonce)
	return DSHA(b[:])
}

// SipVectors64 are the 64 official SipHash-2-4 test vectors of the reference
// implementation (key 00..0f, message 00..i-1), output bytes little endian.
var SipVectors64 = []string{
	"310e0edd47db6f72", "fd67dc93c539f874", "5a4fa9d909806c0d", "2d7efbd796666785",
	"b7877127e09427cf", "8da699cd64557618", "cee3fe586e46c9cb", "37d1018bf50002ab",
	"6224939a79f5f593", "b0e4a90bdf82009e", "f3b9dd94c5bb5d7a", "a7ad6b22462fb3f4",
	"fbe50e86bc8f1e75", "903d84c02756ea14", "eef27a8e90ca23f7", "e545be4961ca29a1",
	"db9bc2577fcc2a3f", "9447be2cf5e99a69", "9cd38d96f0b3c14b", "bd6179a71dc96dbb",
	"98eea21af25cd6be", "c7673b2eb0cbf2d0", "883ea3e395675393", "c8ce5ccd8c030ca8",
	"94af49f6c650adb8", "eab8858ade92e1bc", "f315bb5bb835d817", "adcf6b0763612e2f",
	"a5c91da7acaa4dde", "716595876650a2a6", "28ef495c53a387ad", "42c341d8fa92d832",
	"ce7cf2722f512771", "e37859f94623f3a7", "381205bb1ab0e012", "ae97a10fd434e015",
	"b4a31508beff4d31", "81396229f0907902", "4d0cf49ee5d4dcca", "5c73336a76d8bf9a",
	"d0a704536ba93e0e", "925958fcd6420cad", "a915c29bc8067318", "952b79f3bc0aa6d4",
	"f21df2e41d4535f9", "87577519048f53a9", "10a56cf5dfcd9adb", "eb75095ccd986cd0",
	"51a9cb9ecba312e6", "96afadfc2ce666c7", "72fe52975a4364ee", "5a1645b276d592a1",
	"b274cb8ebf87870a", "6f9bb4203de7b381", "eaecb2a30b22a87f", "9924a43cc1315724",
	"bd838d3aafbf8db7", "0b1a2a3265d51aea", "135079a3231ce660", "932b2846e4d70666",
	"e1915f5cb1eca46c", "f325965ca16d629f", "575ff28e60381be5", "724506eb4c328a95",
}
