// Package refmerkle is the deliberately naive reference model for property C13:
// the consensus "accounting" primitives of Bitcoin written straight from the
// protocol definitions (BIP34, BIP68, BIP113, BIP141, BIP144 and Bitcoin Core's
// consensus/merkle.cpp, consensus/tx_verify.cpp, script/script.cpp,
// script/interpreter.cpp).  It imports nothing from btcd: transactions are plain
// structs, hashes are [32]byte, scripts are byte slices.  Nothing here is fast.
package refmerkle

import (
	"bytes"
	"crypto/sha256"
	"encoding/binary"
	"math/big"
	"sort"
)

// ---------------------------------------------------------------------------
// transactions and their serializations (BIP144)

// TxIn is one transaction input.
type TxIn struct {
	PrevHash  [32]byte
	PrevIndex uint32
	SigScript []byte
	Sequence  uint32
	Witness   [][]byte
}

// TxOut is one transaction output.
type TxOut struct {
	Value    int64
	PkScript []byte
}

// Tx is a transaction.
type Tx struct {
	Version  int32
	In       []TxIn
	Out      []TxOut
	LockTime uint32
}

// Hash is a 32-byte hash in internal byte order.
type Hash = [32]byte

// DSHA is SHA256(SHA256(b)).
func DSHA(b []byte) Hash {
	a := sha256.Sum256(b)
	return sha256.Sum256(a[:])
}

// CompactSize is Bitcoin's variable length integer.
func CompactSize(n uint64) []byte {
	switch {
	case n < 0xfd:
		return []byte{byte(n)}
	case n <= 0xffff:
		return []byte{0xfd, byte(n), byte(n >> 8)}
	case n <= 0xffffffff:
		return []byte{0xfe, byte(n), byte(n >> 8), byte(n >> 16), byte(n >> 24)}
	}
	b := make([]byte, 9)
	b[0] = 0xff
	binary.LittleEndian.PutUint64(b[1:], n)
	return b
}

func le32(v uint32) []byte { return []byte{byte(v), byte(v >> 8), byte(v >> 16), byte(v >> 24)} }
func le64(v uint64) []byte {
	b := make([]byte, 8)
	binary.LittleEndian.PutUint64(b, v)
	return b
}

// HasWitness: at least one input carries a non-empty witness stack.
func (t *Tx) HasWitness() bool {
	for i := range t.In {
		if len(t.In[i].Witness) > 0 {
			return true
		}
	}
	return false
}

// Serialize returns the legacy serialization (withWitness=false) or the BIP144
// serialization (withWitness=true; the extended format is used only when the
// transaction actually has witness data).
func (t *Tx) Serialize(withWitness bool) []byte {
	ext := withWitness && t.HasWitness()
	var b bytes.Buffer
	b.Write(le32(uint32(t.Version)))
	if ext {
		b.Write([]byte{0x00, 0x01})
	}
	b.Write(CompactSize(uint64(len(t.In))))
	for i := range t.In {
		in := &t.In[i]
		b.Write(in.PrevHash[:])
		b.Write(le32(in.PrevIndex))
		b.Write(CompactSize(uint64(len(in.SigScript))))
		b.Write(in.SigScript)
		b.Write(le32(in.Sequence))
	}
	b.Write(CompactSize(uint64(len(t.Out))))
	for i := range t.Out {
		o := &t.Out[i]
		b.Write(le64(uint64(o.Value)))
		b.Write(CompactSize(uint64(len(o.PkScript))))
		b.Write(o.PkScript)
	}
	if ext {
		for i := range t.In {
			w := t.In[i].Witness
			b.Write(CompactSize(uint64(len(w))))
			for _, item := range w {
				b.Write(CompactSize(uint64(len(item))))
				b.Write(item)
			}
		}
	}
	b.Write(le32(t.LockTime))
	return b.Bytes()
}

// TxID is the hash of the legacy serialization.
func (t *Tx) TxID() Hash { return DSHA(t.Serialize(false)) }

// WTxID is the hash of the BIP144 serialization.
func (t *Tx) WTxID() Hash { return DSHA(t.Serialize(true)) }

// IsCoinBase: exactly one input whose prevout is (0, 0xffffffff).
func (t *Tx) IsCoinBase() bool {
	return len(t.In) == 1 && t.In[0].PrevIndex == 0xffffffff && t.In[0].PrevHash == Hash{}
}

// ---------------------------------------------------------------------------
// merkle trees (consensus/merkle.cpp, the definition: pair up, duplicate the
// last entry of every odd level, hash, repeat)

// MerkleRoot of the leaves; the zero hash for no leaves.
func MerkleRoot(leaves []Hash) Hash {
	if len(leaves) == 0 {
		return Hash{}
	}
	if len(leaves) == 1 {
		return leaves[0]
	}
	level := append([]Hash(nil), leaves...)
	if len(level)%2 == 1 {
		level = append(level, level[len(level)-1])
	}
	var next []Hash
	for i := 0; i < len(level); i += 2 {
		var cat [64]byte
		copy(cat[:32], level[i][:])
		copy(cat[32:], level[i+1][:])
		next = append(next, DSHA(cat[:]))
	}
	return MerkleRoot(next)
}

// MerkleLevels returns every level of the tree bottom-up (level 0 = leaves,
// without the duplicated element), used to compare a full tree store.
func MerkleLevels(leaves []Hash) [][]Hash {
	if len(leaves) == 0 {
		return nil
	}
	out := [][]Hash{append([]Hash(nil), leaves...)}
	cur := out[0]
	for len(cur) > 1 {
		var next []Hash
		for i := 0; i < len(cur); i += 2 {
			l := cur[i]
			r := l
			if i+1 < len(cur) {
				r = cur[i+1]
			}
			var cat [64]byte
			copy(cat[:32], l[:])
			copy(cat[32:], r[:])
			next = append(next, DSHA(cat[:]))
		}
		out = append(out, next)
		cur = next
	}
	return out
}

// TxMerkleRoot is the block merkle root (txid form).
func TxMerkleRoot(txs []*Tx) Hash {
	l := make([]Hash, len(txs))
	for i, t := range txs {
		l[i] = t.TxID()
	}
	return MerkleRoot(l)
}

// WitnessLeaves: wtxids with the coinbase (first) entry replaced by zero.
func WitnessLeaves(txs []*Tx) []Hash {
	l := make([]Hash, len(txs))
	for i, t := range txs {
		if i == 0 {
			continue
		}
		l[i] = t.WTxID()
	}
	return l
}

// WitnessMerkleRoot is BIP141's witness root hash.
func WitnessMerkleRoot(txs []*Tx) Hash { return MerkleRoot(WitnessLeaves(txs)) }

// ---------------------------------------------------------------------------
// BIP141 commitment

// CommitmentHeader is OP_RETURN, push-36, 0xaa21a9ed.
var CommitmentHeader = []byte{0x6a, 0x24, 0xaa, 0x21, 0xa9, 0xed}

// FindWitnessCommitment returns the index of the commitment output (the LAST
// output whose script is at least 38 bytes and starts with the header) and the
// 32 committed bytes; index -1 if there is none.
func FindWitnessCommitment(cb *Tx) (int, []byte) {
	pos := -1
	for i := range cb.Out {
		s := cb.Out[i].PkScript
		if len(s) >= 38 && bytes.Equal(s[:6], CommitmentHeader) {
			pos = i
		}
	}
	if pos < 0 {
		return -1, nil
	}
	return pos, cb.Out[pos].PkScript[6:38]
}

// Commitment verdicts.
const (
	CommitOK                = "ok"
	CommitUnexpectedWitness = "unexpected-witness"
	CommitBadNonce          = "bad-witness-nonce-size"
	CommitMismatch          = "bad-witness-merkle-match"
)

// CheckWitnessCommitment is the BIP141 block rule (segwit active, txs[0] is the
// coinbase).
func CheckWitnessCommitment(txs []*Tx) string {
	pos, commit := FindWitnessCommitment(txs[0])
	if pos < 0 {
		for _, t := range txs {
			if t.HasWitness() {
				return CommitUnexpectedWitness
			}
		}
		return CommitOK
	}
	w := txs[0].In[0].Witness
	if len(w) != 1 || len(w[0]) != 32 {
		return CommitBadNonce
	}
	root := WitnessMerkleRoot(txs)
	want := DSHA(append(append([]byte(nil), root[:]...), w[0]...))
	if !bytes.Equal(want[:], commit) {
		return CommitMismatch
	}
	return CommitOK
}

// ---------------------------------------------------------------------------
// weight (BIP141): 3*stripped size + total size

// TxWeight of one transaction.
func TxWeight(t *Tx) int64 {
	return int64(3*len(t.Serialize(false)) + len(t.Serialize(true)))
}

// BlockWeight of a block = 80-byte header + tx count + transactions.
func BlockWeight(txs []*Tx) int64 {
	stripped := 80 + len(CompactSize(uint64(len(txs))))
	total := stripped
	for _, t := range txs {
		stripped += len(t.Serialize(false))
		total += len(t.Serialize(true))
	}
	return int64(3*stripped + total)
}

// ---------------------------------------------------------------------------
// scripts (script/script.cpp)

// Op is one parsed script element.
type Op struct {
	Code byte
	Data []byte
}

// GetOp parses one operation at pc. ok=false on a truncated push.
func GetOp(s []byte, pc int) (op Op, next int, ok bool) {
	if pc >= len(s) {
		return Op{}, pc, false
	}
	code := s[pc]
	pc++
	if code > 0x4e {
		return Op{Code: code}, pc, true
	}
	var n uint64
	switch {
	case code < 0x4c:
		n = uint64(code)
	case code == 0x4c:
		if len(s)-pc < 1 {
			return Op{}, pc, false
		}
		n = uint64(s[pc])
		pc++
	case code == 0x4d:
		if len(s)-pc < 2 {
			return Op{}, pc, false
		}
		n = uint64(s[pc]) | uint64(s[pc+1])<<8
		pc += 2
	default:
		if len(s)-pc < 4 {
			return Op{}, pc, false
		}
		n = uint64(s[pc]) | uint64(s[pc+1])<<8 | uint64(s[pc+2])<<16 | uint64(s[pc+3])<<24
		pc += 4
	}
	if uint64(len(s)-pc) < n {
		return Op{}, pc, false
	}
	return Op{Code: code, Data: s[pc : pc+int(n)]}, pc + int(n), true
}

const (
	opCheckSig            = 0xac
	opCheckSigVerify      = 0xad
	opCheckMultiSig       = 0xae
	opCheckMultiSigVerify = 0xaf
	op1                   = 0x51
	op16                  = 0x60
)

// SigOps is CScript::GetSigOpCount(fAccurate): counting stops silently at the
// first operation that fails to parse.
func SigOps(s []byte, accurate bool) int {
	n := 0
	last := byte(0xff)
	pc := 0
	for pc < len(s) {
		op, next, ok := GetOp(s, pc)
		if !ok {
			break
		}
		pc = next
		switch op.Code {
		case opCheckSig, opCheckSigVerify:
			n++
		case opCheckMultiSig, opCheckMultiSigVerify:
			if accurate && last >= op1 && last <= op16 {
				n += int(last) - (op1 - 1)
			} else {
				n += 20
			}
		}
		last = op.Code
	}
	return n
}

// IsP2SH: exactly OP_HASH160 <20 bytes> OP_EQUAL.
func IsP2SH(s []byte) bool {
	return len(s) == 23 && s[0] == 0xa9 && s[1] == 0x14 && s[22] == 0x87
}

// IsPushOnly: every operation parses and has an opcode <= OP_16.
func IsPushOnly(s []byte) bool {
	pc := 0
	for pc < len(s) {
		op, next, ok := GetOp(s, pc)
		if !ok {
			return false
		}
		if op.Code > op16 {
			return false
		}
		pc = next
	}
	return true
}

// P2SHSigOps is CScript::GetSigOpCount(const CScript& scriptSig) called on the
// scriptPubKey being spent.
func P2SHSigOps(pkScript, sigScript []byte) int {
	if !IsP2SH(pkScript) {
		return SigOps(pkScript, true)
	}
	var data []byte
	pc := 0
	for pc < len(sigScript) {
		op, next, ok := GetOp(sigScript, pc)
		if !ok {
			return 0
		}
		if op.Code > op16 {
			return 0
		}
		data = op.Data
		pc = next
	}
	return SigOps(data, true)
}

// WitnessProgram: 4..42 bytes, a version opcode (OP_0, OP_1..OP_16) followed by
// one direct push that makes up the rest of the script.
func WitnessProgram(s []byte) (version int, program []byte, ok bool) {
	if len(s) < 4 || len(s) > 42 {
		return 0, nil, false
	}
	if s[0] != 0x00 && (s[0] < op1 || s[0] > op16) {
		return 0, nil, false
	}
	if int(s[1])+2 != len(s) {
		return 0, nil, false
	}
	v := 0
	if s[0] != 0 {
		v = int(s[0]) - (op1 - 1)
	}
	return v, s[2:], true
}

func witnessSigOps(version int, program []byte, witness [][]byte) int {
	if version == 0 {
		if len(program) == 20 {
			return 1
		}
		if len(program) == 32 && len(witness) > 0 {
			return SigOps(witness[len(witness)-1], true)
		}
	}
	return 0
}

// CountWitnessSigOps is interpreter.cpp's CountWitnessSigOps with
// SCRIPT_VERIFY_WITNESS|P2SH set.
func CountWitnessSigOps(sigScript, pkScript []byte, witness [][]byte) int {
	if v, p, ok := WitnessProgram(pkScript); ok {
		return witnessSigOps(v, p, witness)
	}
	if IsP2SH(pkScript) && IsPushOnly(sigScript) {
		var data []byte
		pc := 0
		for pc < len(sigScript) {
			op, next, _ := GetOp(sigScript, pc)
			data = op.Data
			pc = next
		}
		if v, p, ok := WitnessProgram(data); ok {
			return witnessSigOps(v, p, witness)
		}
	}
	return 0
}

// TxLegacySigOps is GetLegacySigOpCount.
func TxLegacySigOps(t *Tx) int {
	n := 0
	for i := range t.In {
		n += SigOps(t.In[i].SigScript, false)
	}
	for i := range t.Out {
		n += SigOps(t.Out[i].PkScript, false)
	}
	return n
}

// TxP2SHSigOps is GetP2SHSigOpCount; prev[i] is the script spent by input i.
func TxP2SHSigOps(t *Tx, prev [][]byte) int {
	if t.IsCoinBase() {
		return 0
	}
	n := 0
	for i := range t.In {
		if IsP2SH(prev[i]) {
			n += P2SHSigOps(prev[i], t.In[i].SigScript)
		}
	}
	return n
}

// TxSigOpCost is GetTransactionSigOpCost with the P2SH / WITNESS flags.
func TxSigOpCost(t *Tx, prev [][]byte, p2sh, witness bool) int {
	n := TxLegacySigOps(t) * 4
	if t.IsCoinBase() {
		return n
	}
	if p2sh {
		n += TxP2SHSigOps(t, prev) * 4
	}
	if witness {
		for i := range t.In {
			n += CountWitnessSigOps(t.In[i].SigScript, prev[i], t.In[i].Witness)
		}
	}
	return n
}

// ---------------------------------------------------------------------------
// BIP34

// ScriptNum is CScriptNum::serialize: minimal little-endian sign-magnitude.
func ScriptNum(v int64) []byte {
	if v == 0 {
		return nil
	}
	a := new(big.Int).Abs(big.NewInt(v))
	be := a.Bytes()
	out := make([]byte, len(be))
	for i := range be {
		out[i] = be[len(be)-1-i]
	}
	if out[len(out)-1]&0x80 != 0 {
		if v < 0 {
			out = append(out, 0x80)
		} else {
			out = append(out, 0x00)
		}
	} else if v < 0 {
		out[len(out)-1] |= 0x80
	}
	return out
}

// PushInt is "CScript() << n".
func PushInt(n int64) []byte {
	if n == -1 || (n >= 1 && n <= 16) {
		return []byte{byte(n + (op1 - 1))}
	}
	if n == 0 {
		return []byte{0x00}
	}
	d := ScriptNum(n)
	// sizes here are at most 9 bytes: always a direct push
	return append([]byte{byte(len(d))}, d...)
}

// CoinbaseHeightOK is the BIP34 consensus rule: the coinbase script starts with
// the serialized height.
func CoinbaseHeightOK(script []byte, height int64) bool {
	return bytes.HasPrefix(script, PushInt(height))
}

// CoinbaseHeight returns the unique height h in [0, 2^31-1] whose serialization
// is a prefix of script, if any.  (Serializations of distinct heights are never
// prefixes of one another: the first byte fixes the total length.)
func CoinbaseHeight(script []byte) (int64, bool) {
	if len(script) == 0 {
		return 0, false
	}
	var cand int64 = -1
	c := script[0]
	switch {
	case c == 0:
		cand = 0
	case c >= op1 && c <= op16:
		cand = int64(c) - (op1 - 1)
	case c >= 1 && c <= 8 && len(script) >= 1+int(c):
		// decode sign-magnitude little endian
		d := script[1 : 1+int(c)]
		mag := new(big.Int)
		for i := len(d) - 1; i >= 0; i-- {
			b := d[i]
			if i == len(d)-1 {
				b &= 0x7f
			}
			mag.Lsh(mag, 8)
			mag.Or(mag, big.NewInt(int64(b)))
		}
		if d[len(d)-1]&0x80 != 0 {
			mag.Neg(mag)
		}
		if mag.IsInt64() {
			cand = mag.Int64()
		}
	}
	if cand < 0 || cand > 0x7fffffff {
		return 0, false
	}
	if !CoinbaseHeightOK(script, cand) {
		return 0, false
	}
	return cand, true
}

// ---------------------------------------------------------------------------
// finality (IsFinalTx) and BIP68 / BIP113

// LockTimeThreshold separates heights from unix times in nLockTime.
const LockTimeThreshold = 500000000

// IsFinalTx per consensus/tx_verify.cpp.
func IsFinalTx(t *Tx, blockHeight int64, blockTime int64) bool {
	if t.LockTime == 0 {
		return true
	}
	lt := int64(t.LockTime)
	cmp := blockTime
	if lt < LockTimeThreshold {
		cmp = blockHeight
	}
	if lt < cmp {
		return true
	}
	for i := range t.In {
		if t.In[i].Sequence != 0xffffffff {
			return false
		}
	}
	return true
}

// MedianTimePast of the block at height h on a chain whose block timestamps are
// ts[0..] (ts[0] = genesis): median of the last (up to) 11 timestamps.
func MedianTimePast(ts []int64, h int) int64 {
	lo := h - 10
	if lo < 0 {
		lo = 0
	}
	w := append([]int64(nil), ts[lo:h+1]...)
	sort.Slice(w, func(i, j int) bool { return w[i] < w[j] })
	return w[len(w)/2]
}

// BIP68 constants.
const (
	SeqDisable     = uint32(1) << 31
	SeqTypeFlag    = uint32(1) << 22
	SeqMask        = uint32(0xffff)
	SeqGranularity = 9
)

// CalculateSequenceLocks is consensus/tx_verify.cpp's function.  enforce =
// LOCKTIME_VERIFY_SEQUENCE flag; prevHeights[i] = height of the block that
// contains the coin spent by input i (for unconfirmed coins: tipHeight+1);
// ts = timestamps of the chain the transaction is evaluated on.
// Returns (minHeight, minTime): the LAST block height / MTP at which the
// transaction is still invalid (-1 = no constraint).
func CalculateSequenceLocks(t *Tx, enforce bool, prevHeights []int, ts []int64) (int64, int64) {
	minHeight, minTime := int64(-1), int64(-1)
	if !(uint32(t.Version) >= 2 && enforce) {
		return minHeight, minTime
	}
	for i := range t.In {
		seq := t.In[i].Sequence
		if seq&SeqDisable != 0 {
			continue
		}
		ch := prevHeights[i]
		if seq&SeqTypeFlag != 0 {
			a := ch - 1
			if a < 0 {
				a = 0
			}
			coinTime := MedianTimePast(ts, a)
			v := coinTime + (int64(seq&SeqMask) << SeqGranularity) - 1
			if v > minTime {
				minTime = v
			}
		} else {
			v := int64(ch) + int64(seq&SeqMask) - 1
			if v > minHeight {
				minHeight = v
			}
		}
	}
	return minHeight, minTime
}

// EvaluateSequenceLocks: may the transaction be included in a block of the
// given height whose predecessor has the given median time past?
func EvaluateSequenceLocks(minHeight, minTime int64, blockHeight int64, prevMTP int64) bool {
	if minHeight >= blockHeight || minTime >= prevMTP {
		return false
	}
	return true
}

// BIP68Satisfied states BIP68 directly, input by input, without the
// (height, time) pair: the transaction may be included in block nextHeight
// (whose predecessor has MTP prevMTP) iff every constrained input is old enough.
func BIP68Satisfied(t *Tx, enforce bool, prevHeights []int, ts []int64, nextHeight int, prevMTP int64) bool {
	if uint32(t.Version) < 2 || !enforce {
		return true
	}
	for i := range t.In {
		seq := t.In[i].Sequence
		if seq&SeqDisable != 0 {
			continue
		}
		n := int64(seq & SeqMask)
		if seq&SeqTypeFlag != 0 {
			a := prevHeights[i] - 1
			if a < 0 {
				a = 0
			}
			if prevMTP < MedianTimePast(ts, a)+512*n {
				return false
			}
		} else {
			if int64(nextHeight) < int64(prevHeights[i])+n {
				return false
			}
		}
	}
	return true
}
