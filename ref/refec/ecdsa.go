package refec

import (
	"crypto/hmac"
	"crypto/sha256"
	"math/big"
)

// hashToInt is SEC1 4.1.3 step 5 for a hash of at most 32 bytes on a 256-bit
// curve: the hash read as a big-endian integer (reduction happens in the
// arithmetic mod n).  Hashes longer than 32 bytes are truncated to the
// leftmost 32 bytes.
func hashToInt(hash []byte) *big.Int {
	if len(hash) > 32 {
		hash = hash[:32]
	}
	return Int(hash)
}

// ECDSAVerify is SEC1 4.1.4: accept iff 1 <= r,s <= n-1 and, with
// u1 = e/s, u2 = r/s, R = u1*G + u2*Q is finite and x(R) mod n = r.
func ECDSAVerify(q Point, hash []byte, r, s *big.Int) bool {
	if q.Inf || !IsOnCurve(q) {
		return false
	}
	if r.Sign() <= 0 || r.Cmp(N) >= 0 || s.Sign() <= 0 || s.Cmp(N) >= 0 {
		return false
	}
	e := hashToInt(hash)
	w := new(big.Int).ModInverse(s, N)
	u1 := modN(new(big.Int).Mul(e, w))
	u2 := modN(new(big.Int).Mul(r, w))
	R := Add(ScalarMult(u1, G), ScalarMult(u2, q))
	if R.Inf {
		return false
	}
	v := new(big.Int).Mod(R.X, N)
	return v.Cmp(r) == 0
}

// ECDSASignWithNonce is SEC1 4.1.3 with a caller supplied nonce k in [1,n-1].
// It returns (r, s, recid, ok); s is NOT normalised.  recid bit 0 is the parity
// of y(kG), bit 1 is set when x(kG) >= n.  ok is false when r or s is zero.
func ECDSASignWithNonce(d *big.Int, hash []byte, k *big.Int) (r, s *big.Int, recid byte, ok bool) {
	R := BaseMult(k)
	if R.Inf {
		return nil, nil, 0, false
	}
	r = new(big.Int).Mod(R.X, N)
	if r.Sign() == 0 {
		return nil, nil, 0, false
	}
	e := hashToInt(hash)
	s = new(big.Int).Mul(r, d)
	s.Add(s, e)
	s.Mul(s, new(big.Int).ModInverse(k, N))
	modN(s)
	if s.Sign() == 0 {
		return nil, nil, 0, false
	}
	recid = byte(R.Y.Bit(0))
	if R.X.Cmp(N) >= 0 {
		recid |= 2
	}
	return r, s, recid, true
}

// LowS returns min(s, n-s) and whether s had to be negated (BIP62 rule 5).
func LowS(s *big.Int) (*big.Int, bool) {
	if s.Cmp(HalfN) > 0 {
		return new(big.Int).Sub(N, s), true
	}
	return new(big.Int).Set(s), false
}

func hmacSHA256(key []byte, parts ...[]byte) []byte {
	m := hmac.New(sha256.New, key)
	for _, p := range parts {
		m.Write(p)
	}
	return m.Sum(nil)
}

// RFC6979Nonce is RFC 6979 section 3.2 for secp256k1/SHA-256 with a 32-byte
// message hash h1 and optional additional data k' (section 3.6) appended to
// the HMAC input after bits2octets(h1).  skip is the number of otherwise
// acceptable candidates that are discarded first (callers retry with the next
// candidate when a nonce leads to r = 0 or s = 0).
func RFC6979Nonce(d *big.Int, h1 []byte, extra []byte, skip int) *big.Int {
	x := Bytes32(d)                            // int2octets(x)
	h := Bytes32(new(big.Int).Mod(Int(h1), N)) // bits2octets(h1) = int(h1) mod q
	V := make([]byte, 32)
	K := make([]byte, 32)
	for i := range V {
		V[i] = 1
	}
	K = hmacSHA256(K, V, []byte{0}, x, h, extra)
	V = hmacSHA256(K, V)
	K = hmacSHA256(K, V, []byte{1}, x, h, extra)
	V = hmacSHA256(K, V)
	for {
		V = hmacSHA256(K, V) // T = V (hlen = qlen)
		k := Int(V)
		if k.Sign() > 0 && k.Cmp(N) < 0 {
			if skip == 0 {
				return k
			}
			skip--
		}
		K = hmacSHA256(K, V, []byte{0})
		V = hmacSHA256(K, V)
	}
}

// ECDSASignRFC6979 is deterministic ECDSA (RFC 6979) with the low-S rule of
// BIP62 applied to the result.  recid refers to the returned (normalised) s.
func ECDSASignRFC6979(d *big.Int, hash []byte) (r, s *big.Int, recid byte) {
	for skip := 0; ; skip++ {
		k := RFC6979Nonce(d, hash, nil, skip)
		r, s, recid, ok := ECDSASignWithNonce(d, hash, k)
		if !ok {
			continue
		}
		ls, neg := LowS(s)
		if neg {
			recid ^= 1
		}
		return r, ls, recid
	}
}

// CompactSig is Bitcoin's 65-byte recoverable signature:
// (27 + recid + 4*compressed) || r || s.
func CompactSig(r, s *big.Int, recid byte, compressed bool) []byte {
	out := make([]byte, 65)
	out[0] = 27 + recid
	if compressed {
		out[0] += 4
	}
	r.FillBytes(out[1:33])
	s.FillBytes(out[33:])
	return out
}

// RecoverCompact is SEC1 4.1.6 restricted to the candidate selected by the
// header byte.  It fails for a wrong length, a header outside [27,34], r or s
// outside [1,n-1], x = r + n*(recid>>1) >= p or not an abscissa, or Q at
// infinity.
func RecoverCompact(sig []byte, hash []byte) (q Point, compressed bool, ok bool) {
	if len(sig) != 65 {
		return Point{}, false, false
	}
	if sig[0] < 27 || sig[0] > 34 {
		return Point{}, false, false
	}
	code := sig[0] - 27
	compressed = code&4 != 0
	recid := code & 3
	r, s := Int(sig[1:33]), Int(sig[33:])
	if r.Sign() <= 0 || r.Cmp(N) >= 0 || s.Sign() <= 0 || s.Cmp(N) >= 0 {
		return Point{}, false, false
	}
	x := new(big.Int).Set(r)
	if recid&2 != 0 {
		x.Add(x, N)
	}
	R, okx := LiftX(x)
	if !okx {
		return Point{}, false, false
	}
	if recid&1 != 0 {
		R = Neg(R)
	}
	// Q = r^-1 (s*R - e*G)
	e := hashToInt(hash)
	rinv := new(big.Int).ModInverse(r, N)
	t := Add(ScalarMult(s, R), Neg(ScalarMult(e, G)))
	q = ScalarMult(rinv, t)
	if q.Inf {
		return Point{}, false, false
	}
	return q, compressed, true
}
