package refec

import (
	"bytes"
	"encoding/binary"
	"errors"
	"math/big"
	"sort"
)

// BIP327 (MuSig2) written out from the algorithm descriptions of the BIP.
// Public keys are 33-byte "plain" keys, public nonces 66 bytes, secret nonces
// 97 bytes (k1 || k2 || pk).

// Errors distinguish the failure classes the BIP names.
var (
	ErrInvalidPubKey    = errors.New("bip327: invalid contribution: pubkey")
	ErrInvalidPubNonce  = errors.New("bip327: invalid contribution: pubnonce")
	ErrInvalidAggNonce  = errors.New("bip327: invalid contribution: aggnonce")
	ErrInvalidPartial   = errors.New("bip327: invalid contribution: psig")
	ErrTweakRange       = errors.New("bip327: the tweak must be less than n")
	ErrTweakInfinity    = errors.New("bip327: the result of tweaking cannot be infinity")
	ErrAggKeyInfinity   = errors.New("bip327: aggregate key is infinity")
	ErrSecNonceRange    = errors.New("bip327: first/second secnonce value is out of range")
	ErrSecKeyRange      = errors.New("bip327: secret key value is out of range")
	ErrSecNoncePubKey   = errors.New("bip327: public key does not match nonce_gen argument")
	ErrPubKeyNotInList  = errors.New("bip327: the signer's pubkey must be included in the list of pubkeys")
	ErrNonceZero        = errors.New("bip327: generated nonce is zero")
	ErrPartialSigVerify = errors.New("bip327: partial signature does not verify")
)

// KeySort is BIP327 KeySort: lexicographic order of the 33-byte encodings.
func KeySort(pks [][]byte) [][]byte {
	out := make([][]byte, len(pks))
	copy(out, pks)
	sort.SliceStable(out, func(i, j int) bool { return bytes.Compare(out[i], out[j]) < 0 })
	return out
}

// HashKeys is hash_KeyAgg list(pk_1 || ... || pk_u).
func HashKeys(pks [][]byte) []byte {
	return TaggedHash("KeyAgg list", pks...)
}

// GetSecondKey returns the first key different from pk_1, or 33 zero bytes.
func GetSecondKey(pks [][]byte) []byte {
	for _, pk := range pks {
		if !bytes.Equal(pk, pks[0]) {
			return pk
		}
	}
	return make([]byte, 33)
}

// KeyAggCoeff is BIP327 KeyAggCoeff(pk_1..u, pk'): 1 for the "second key",
// otherwise int(hash_KeyAgg coefficient(L || pk')) mod n.
func KeyAggCoeff(pks [][]byte, pk []byte) *big.Int {
	return keyAggCoeffInternal(pks, pk, GetSecondKey(pks))
}

func keyAggCoeffInternal(pks [][]byte, pk, pk2 []byte) *big.Int {
	L := HashKeys(pks)
	if bytes.Equal(pk, pk2) {
		return big.NewInt(1)
	}
	return modN(Int(TaggedHash("KeyAgg coefficient", L, pk)))
}

// KeyAggCtx is the BIP327 keyagg_ctx (Q, gacc, tacc).
type KeyAggCtx struct {
	Q    Point
	Gacc *big.Int
	Tacc *big.Int
}

// KeyAgg is BIP327 KeyAgg.
func KeyAgg(pks [][]byte) (*KeyAggCtx, error) {
	pk2 := GetSecondKey(pks)
	Q := Infinity
	for _, pk := range pks {
		Pi, ok := CPoint(pk)
		if !ok {
			return nil, ErrInvalidPubKey
		}
		a := keyAggCoeffInternal(pks, pk, pk2)
		Q = Add(Q, ScalarMult(a, Pi))
	}
	if Q.Inf {
		return nil, ErrAggKeyInfinity
	}
	return &KeyAggCtx{Q: Q, Gacc: big.NewInt(1), Tacc: big.NewInt(0)}, nil
}

// ApplyTweak is BIP327 ApplyTweak.
func ApplyTweak(ctx *KeyAggCtx, tweak []byte, isXOnly bool) (*KeyAggCtx, error) {
	g := big.NewInt(1)
	if isXOnly && !HasEvenY(ctx.Q) {
		g = new(big.Int).Sub(N, one)
	}
	t := Int(tweak)
	if t.Cmp(N) >= 0 {
		return nil, ErrTweakRange
	}
	Q := Add(ScalarMult(g, ctx.Q), ScalarMult(t, G))
	if Q.Inf {
		return nil, ErrTweakInfinity
	}
	gacc := modN(new(big.Int).Mul(g, ctx.Gacc))
	tacc := modN(new(big.Int).Add(t, new(big.Int).Mul(g, ctx.Tacc)))
	return &KeyAggCtx{Q: Q, Gacc: gacc, Tacc: tacc}, nil
}

// Tweak is one (tweak, is_xonly_t) pair.
type Tweak struct {
	T     []byte
	XOnly bool
}

// KeyAggWithTweaks runs KeyAgg followed by ApplyTweak for every tweak.
func KeyAggWithTweaks(pks [][]byte, tweaks []Tweak) (*KeyAggCtx, error) {
	ctx, err := KeyAgg(pks)
	if err != nil {
		return nil, err
	}
	for _, tw := range tweaks {
		ctx, err = ApplyTweak(ctx, tw.T, tw.XOnly)
		if err != nil {
			return nil, err
		}
	}
	return ctx, nil
}

// NonceGen is BIP327 NonceGen with rand' given explicitly.  sk, aggpk, msg and
// extraIn are optional (nil = absent); msg may be present and empty.
func NonceGen(randPrime []byte, sk, pk, aggpk, msg, extraIn []byte) (secnonce, pubnonce []byte, err error) {
	rnd := make([]byte, 32)
	copy(rnd, randPrime)
	if sk != nil {
		h := TaggedHash("MuSig/aux", randPrime)
		for i := range rnd {
			rnd[i] = sk[i] ^ h[i]
		}
	}
	var mPrefixed []byte
	if msg == nil {
		mPrefixed = []byte{0}
	} else {
		mPrefixed = append([]byte{1}, be(8, uint64(len(msg)))...)
		mPrefixed = append(mPrefixed, msg...)
	}
	var ks [2]*big.Int
	for i := 0; i < 2; i++ {
		h := TaggedHash("MuSig/nonce", rnd,
			[]byte{byte(len(pk))}, pk,
			[]byte{byte(len(aggpk))}, aggpk,
			mPrefixed,
			be(4, uint64(len(extraIn))), extraIn,
			[]byte{byte(i)})
		ks[i] = modN(Int(h))
		if ks[i].Sign() == 0 {
			return nil, nil, ErrNonceZero
		}
	}
	secnonce = append(append(Bytes32(ks[0]), Bytes32(ks[1])...), pk...)
	pubnonce = append(Compressed(BaseMult(ks[0])), Compressed(BaseMult(ks[1]))...)
	return secnonce, pubnonce, nil
}

func be(n int, v uint64) []byte {
	var b [8]byte
	binary.BigEndian.PutUint64(b[:], v)
	return b[8-n:]
}

// PubNonce derives the public nonce of a secret nonce (k1 || k2 || ...).
func PubNonce(secnonce []byte) []byte {
	k1, k2 := Int(secnonce[:32]), Int(secnonce[32:64])
	return append(Compressed(BaseMult(k1)), Compressed(BaseMult(k2))...)
}

// NonceAgg is BIP327 NonceAgg; on failure the index of the offending signer
// is returned.
func NonceAgg(pubnonces [][]byte) ([]byte, int, error) {
	var out []byte
	for j := 0; j < 2; j++ {
		Rj := Infinity
		for i, pn := range pubnonces {
			if len(pn) != 66 {
				return nil, i, ErrInvalidPubNonce
			}
			Rij, ok := CPoint(pn[j*33 : (j+1)*33])
			if !ok {
				return nil, i, ErrInvalidPubNonce
			}
			Rj = Add(Rj, Rij)
		}
		out = append(out, CompressedExt(Rj)...)
	}
	return out, -1, nil
}

// SessionCtx is the BIP327 session_ctx.
type SessionCtx struct {
	AggNonce []byte
	PubKeys  [][]byte
	Tweaks   []Tweak
	Msg      []byte
}

// SessionValues is the result of GetSessionValues.
type SessionValues struct {
	Q    Point
	Gacc *big.Int
	Tacc *big.Int
	B    *big.Int
	R    Point
	E    *big.Int
}

// GetSessionValues is BIP327 GetSessionValues.
func GetSessionValues(sc *SessionCtx) (*SessionValues, error) {
	kc, err := KeyAggWithTweaks(sc.PubKeys, sc.Tweaks)
	if err != nil {
		return nil, err
	}
	return SessionValuesFor(kc, sc.AggNonce, sc.Msg)
}

// SessionValuesFor is the part of GetSessionValues after the key aggregation
// context (KeyAgg + ApplyTweak chain) has been computed.
func SessionValuesFor(kc *KeyAggCtx, aggNonce, msg []byte) (*SessionValues, error) {
	if len(aggNonce) != 66 {
		return nil, ErrInvalidAggNonce
	}
	b := modN(Int(TaggedHash("MuSig/noncecoef", aggNonce, XBytes(kc.Q), msg)))
	R1, ok1 := CPointExt(aggNonce[:33])
	R2, ok2 := CPointExt(aggNonce[33:])
	if !ok1 || !ok2 {
		return nil, ErrInvalidAggNonce
	}
	Rp := Add(R1, ScalarMult(b, R2))
	R := Rp
	if Rp.Inf {
		R = G
	}
	e := modN(Int(TaggedHash("BIP0340/challenge", XBytes(R), XBytes(kc.Q), msg)))
	return &SessionValues{Q: kc.Q, Gacc: kc.Gacc, Tacc: kc.Tacc, B: b, R: R, E: e}, nil
}

// GetSessionKeyAggCoeff is BIP327 GetSessionKeyAggCoeff.
func GetSessionKeyAggCoeff(sc *SessionCtx, pk []byte) (*big.Int, error) {
	found := false
	for _, k := range sc.PubKeys {
		if bytes.Equal(k, pk) {
			found = true
		}
	}
	if !found {
		return nil, ErrPubKeyNotInList
	}
	return KeyAggCoeff(sc.PubKeys, pk), nil
}

// PartialSign is BIP327 Sign (including the final self-verification).
func PartialSign(secnonce []byte, sk []byte, sc *SessionCtx) ([]byte, error) {
	v, err := GetSessionValues(sc)
	if err != nil {
		return nil, err
	}
	return PartialSignV(v, secnonce, sk, sc)
}

// PartialSignV is PartialSign with the session values already computed (the
// values are a pure function of sc; this only avoids recomputing them).
func PartialSignV(v *SessionValues, secnonce []byte, sk []byte, sc *SessionCtx) ([]byte, error) {
	k1p, k2p := Int(secnonce[:32]), Int(secnonce[32:64])
	if k1p.Sign() == 0 || k1p.Cmp(N) >= 0 || k2p.Sign() == 0 || k2p.Cmp(N) >= 0 {
		return nil, ErrSecNonceRange
	}
	k1, k2 := k1p, k2p
	if !HasEvenY(v.R) {
		k1 = new(big.Int).Sub(N, k1p)
		k2 = new(big.Int).Sub(N, k2p)
	}
	dp := Int(sk)
	if dp.Sign() == 0 || dp.Cmp(N) >= 0 {
		return nil, ErrSecKeyRange
	}
	Pt := BaseMult(dp)
	pk := Compressed(Pt)
	if !bytes.Equal(pk, secnonce[64:97]) {
		return nil, ErrSecNoncePubKey
	}
	a, err := GetSessionKeyAggCoeff(sc, pk)
	if err != nil {
		return nil, err
	}
	g := big.NewInt(1)
	if !HasEvenY(v.Q) {
		g = new(big.Int).Sub(N, one)
	}
	d := modN(new(big.Int).Mul(modN(new(big.Int).Mul(g, v.Gacc)), dp))
	s := new(big.Int).Mul(v.E, a)
	s.Mul(s, d)
	s.Add(s, new(big.Int).Mul(v.B, k2))
	s.Add(s, k1)
	modN(s)
	psig := Bytes32(s)
	pubnonce := append(Compressed(BaseMult(k1p)), Compressed(BaseMult(k2p))...)
	if err := PartialSigVerifyV(v, psig, pubnonce, pk, sc); err != nil {
		return nil, err
	}
	return psig, nil
}

// PartialSigVerifyInternal is BIP327 PartialSigVerifyInternal; nil = valid.
func PartialSigVerifyInternal(psig, pubnonce, pk []byte, sc *SessionCtx) error {
	v, err := GetSessionValues(sc)
	if err != nil {
		return err
	}
	return PartialSigVerifyV(v, psig, pubnonce, pk, sc)
}

// PartialSigVerifyV is PartialSigVerifyInternal with precomputed session values.
func PartialSigVerifyV(v *SessionValues, psig, pubnonce, pk []byte, sc *SessionCtx) error {
	if len(psig) != 32 {
		return ErrInvalidPartial
	}
	s := Int(psig)
	if s.Cmp(N) >= 0 {
		return ErrInvalidPartial
	}
	if len(pubnonce) != 66 {
		return ErrInvalidPubNonce
	}
	Rs1, ok1 := CPoint(pubnonce[:33])
	Rs2, ok2 := CPoint(pubnonce[33:])
	if !ok1 || !ok2 {
		return ErrInvalidPubNonce
	}
	Rep := Add(Rs1, ScalarMult(v.B, Rs2))
	Re := Rep
	if !HasEvenY(v.R) {
		Re = Neg(Rep)
	}
	Pt, ok := CPoint(pk)
	if !ok {
		return ErrInvalidPubKey
	}
	a, err := GetSessionKeyAggCoeff(sc, pk)
	if err != nil {
		return err
	}
	g := big.NewInt(1)
	if !HasEvenY(v.Q) {
		g = new(big.Int).Sub(N, one)
	}
	gp := modN(new(big.Int).Mul(g, v.Gacc))
	c := modN(new(big.Int).Mul(modN(new(big.Int).Mul(v.E, a)), gp))
	if !Equal(ScalarMult(s, G), Add(Re, ScalarMult(c, Pt))) {
		return ErrPartialSigVerify
	}
	return nil
}

// PartialSigVerify is BIP327 PartialSigVerify (aggregates the nonces itself).
func PartialSigVerify(psig []byte, pubnonces [][]byte, pks [][]byte, tweaks []Tweak, msg []byte, i int) error {
	agg, _, err := NonceAgg(pubnonces)
	if err != nil {
		return err
	}
	sc := &SessionCtx{AggNonce: agg, PubKeys: pks, Tweaks: tweaks, Msg: msg}
	return PartialSigVerifyInternal(psig, pubnonces[i], pks[i], sc)
}

// PartialSigAgg is BIP327 PartialSigAgg; on an out of range partial signature
// the index of the offending signer is returned.
func PartialSigAgg(psigs [][]byte, sc *SessionCtx) ([]byte, int, error) {
	v, err := GetSessionValues(sc)
	if err != nil {
		return nil, -1, err
	}
	return PartialSigAggV(v, psigs)
}

// PartialSigAggV is PartialSigAgg with precomputed session values.
func PartialSigAggV(v *SessionValues, psigs [][]byte) ([]byte, int, error) {
	s := new(big.Int)
	for i, ps := range psigs {
		si := Int(ps)
		if len(ps) != 32 || si.Cmp(N) >= 0 {
			return nil, i, ErrInvalidPartial
		}
		s.Add(s, si)
	}
	g := big.NewInt(1)
	if !HasEvenY(v.Q) {
		g = new(big.Int).Sub(N, one)
	}
	t := new(big.Int).Mul(v.E, g)
	t.Mul(t, v.Tacc)
	s.Add(s, t)
	modN(s)
	return append(XBytes(v.R), Bytes32(s)...), -1, nil
}
