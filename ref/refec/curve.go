// Package refec is a deliberately naive reference model of secp256k1 and of the
// signature schemes defined on top of it (ECDSA / SEC1 + RFC6979, BIP340 Schnorr,
// BIP327 MuSig2) plus a grammar model of DER signature encodings (BIP66).
//
// Everything is math/big in affine coordinates with the defining equations
// written out verbatim from the specifications; nothing is shared with btcd or
// with decred's secp256k1.  It is slow (about a millisecond per scalar
// multiplication) and not constant time: it is an oracle, not a library.
package refec

import (
	"crypto/sha256"
	"math/big"
	"sync"
)

func hexInt(s string) *big.Int {
	v, ok := new(big.Int).SetString(s, 16)
	if !ok {
		panic("refec: bad constant " + s)
	}
	return v
}

// Curve constants (SEC2 2.4.1): y^2 = x^3 + 7 over F_P, generator G of order N.
var (
	P  = hexInt("FFFFFFFFFFFFFFFFFFFFFFFFFFFFFFFFFFFFFFFFFFFFFFFFFFFFFFFEFFFFFC2F")
	N  = hexInt("FFFFFFFFFFFFFFFFFFFFFFFFFFFFFFFEBAAEDCE6AF48A03BBFD25E8CD0364141")
	Gx = hexInt("79BE667EF9DCBBAC55A06295CE870B07029BFCDB2DCE28D959F2815B16F81798")
	Gy = hexInt("483ADA7726A3C4655DA4FBFC0E1108A8FD17B448A68554199C47D08FFB10D4B8")
	G  = Point{X: Gx, Y: Gy}

	B7      = big.NewInt(7)
	one     = big.NewInt(1)
	two     = big.NewInt(2)
	three   = big.NewInt(3)
	pPlus14 = new(big.Int).Rsh(new(big.Int).Add(P, one), 2) // (p+1)/4
	// HalfN is floor(n/2): s is "low" iff s <= HalfN.
	HalfN = new(big.Int).Rsh(N, 1)
	// Two256 is 2^256.
	Two256  = new(big.Int).Lsh(one, 256)
	nMinus1 = new(big.Int).Sub(N, one)
)

// Point is an affine point of the curve or the point at infinity.
type Point struct {
	X, Y *big.Int
	Inf  bool
}

// Infinity is the neutral element.
var Infinity = Point{Inf: true}

func modP(v *big.Int) *big.Int { return v.Mod(v, P) }

// IsOnCurve reports y^2 = x^3 + 7 (mod p) with 0 <= x,y < p; infinity is not
// "on the curve" for the purposes of key validation.
func IsOnCurve(pt Point) bool {
	if pt.Inf || pt.X == nil || pt.Y == nil {
		return false
	}
	if pt.X.Sign() < 0 || pt.X.Cmp(P) >= 0 || pt.Y.Sign() < 0 || pt.Y.Cmp(P) >= 0 {
		return false
	}
	l := new(big.Int).Mul(pt.Y, pt.Y)
	modP(l)
	r := new(big.Int).Mul(pt.X, pt.X)
	r.Mul(r, pt.X)
	r.Add(r, B7)
	modP(r)
	return l.Cmp(r) == 0
}

// Equal compares two points.
func Equal(a, b Point) bool {
	if a.Inf || b.Inf {
		return a.Inf && b.Inf
	}
	return a.X.Cmp(b.X) == 0 && a.Y.Cmp(b.Y) == 0
}

// Neg returns -a.
func Neg(a Point) Point {
	if a.Inf {
		return a
	}
	y := new(big.Int).Sub(P, a.Y)
	modP(y)
	return Point{X: new(big.Int).Set(a.X), Y: y}
}

// Add is the textbook affine group law.
func Add(a, b Point) Point {
	if a.Inf {
		return b
	}
	if b.Inf {
		return a
	}
	var lam *big.Int
	if a.X.Cmp(b.X) == 0 {
		if a.Y.Cmp(b.Y) != 0 || a.Y.Sign() == 0 {
			return Infinity // a = -b (or a point of order two, which does not exist here)
		}
		// lambda = 3x^2 / 2y
		num := new(big.Int).Mul(a.X, a.X)
		num.Mul(num, three)
		den := new(big.Int).Mul(a.Y, two)
		den.ModInverse(modP(den), P)
		lam = num.Mul(num, den)
	} else {
		// lambda = (y2-y1)/(x2-x1)
		num := new(big.Int).Sub(b.Y, a.Y)
		den := new(big.Int).Sub(b.X, a.X)
		den.ModInverse(modP(den), P)
		lam = num.Mul(num, den)
	}
	modP(lam)
	x3 := new(big.Int).Mul(lam, lam)
	x3.Sub(x3, a.X)
	x3.Sub(x3, b.X)
	modP(x3)
	y3 := new(big.Int).Sub(a.X, x3)
	y3.Mul(y3, lam)
	y3.Sub(y3, a.Y)
	modP(y3)
	return Point{X: x3, Y: y3}
}

// ScalarMult returns k*a by double-and-add; k is first reduced mod n (k may be
// any non-negative integer).
func ScalarMult(k *big.Int, a Point) Point {
	if !a.Inf && a.X.Cmp(Gx) == 0 && a.Y.Cmp(Gy) == 0 {
		return BaseMult(k) // same value; only reuses the cached doublings of G
	}
	kk := new(big.Int).Mod(k, N)
	if kk.Cmp(nMinus1) == 0 {
		return Neg(a) // (n-1)*a = -a for every point of the (prime order n) group
	}
	r := Infinity
	for i := kk.BitLen() - 1; i >= 0; i-- {
		r = Add(r, r)
		if kk.Bit(i) == 1 {
			r = Add(r, a)
		}
	}
	return r
}

var (
	gPowOnce sync.Once
	gPow     [256]Point // gPow[i] = 2^i * G
)

// BaseMult returns k*G as the sum of the points 2^i*G over the set bits of
// k mod n (the 256 doublings of G are computed once).
func BaseMult(k *big.Int) Point {
	gPowOnce.Do(func() {
		gPow[0] = G
		for i := 1; i < 256; i++ {
			gPow[i] = Add(gPow[i-1], gPow[i-1])
		}
	})
	kk := new(big.Int).Mod(k, N)
	r := Infinity
	for i := 0; i < kk.BitLen(); i++ {
		if kk.Bit(i) == 1 {
			r = Add(r, gPow[i])
		}
	}
	return r
}

// sqrtP returns a square root of v mod p and whether one exists (p = 3 mod 4).
func sqrtP(v *big.Int) (*big.Int, bool) {
	y := new(big.Int).Exp(v, pPlus14, P)
	c := new(big.Int).Mul(y, y)
	modP(c)
	if c.Cmp(new(big.Int).Mod(v, P)) != 0 {
		return nil, false
	}
	return y, true
}

// LiftX is BIP340 lift_x: the point with the given x and even y; fails if
// x >= p or x is not the abscissa of a curve point.
func LiftX(x *big.Int) (Point, bool) {
	if x.Sign() < 0 || x.Cmp(P) >= 0 {
		return Point{}, false
	}
	c := new(big.Int).Mul(x, x)
	c.Mul(c, x)
	c.Add(c, B7)
	modP(c)
	y, ok := sqrtP(c)
	if !ok {
		return Point{}, false
	}
	if y.Bit(0) == 1 {
		y.Sub(P, y)
	}
	return Point{X: new(big.Int).Set(x), Y: y}, true
}

// HasEvenY reports whether the (finite) point has an even y coordinate.
func HasEvenY(a Point) bool { return !a.Inf && a.Y.Bit(0) == 0 }

// Bytes32 is the 32-byte big-endian encoding of 0 <= v < 2^256.
func Bytes32(v *big.Int) []byte {
	if v.Sign() < 0 || v.BitLen() > 256 {
		panic("refec: Bytes32 out of range")
	}
	out := make([]byte, 32)
	v.FillBytes(out)
	return out
}

// Int reads an unsigned big-endian integer.
func Int(b []byte) *big.Int { return new(big.Int).SetBytes(b) }

// XBytes is BIP340 bytes(P): the 32-byte x coordinate.
func XBytes(a Point) []byte { return Bytes32(a.X) }

// Compressed is the SEC1 33-byte encoding (02 even / 03 odd); BIP327 cbytes.
func Compressed(a Point) []byte {
	if a.Inf {
		panic("refec: Compressed(infinity)")
	}
	out := make([]byte, 33)
	out[0] = 2 + byte(a.Y.Bit(0))
	a.X.FillBytes(out[1:])
	return out
}

// CompressedExt is BIP327 cbytes_ext: 33 zero bytes for infinity.
func CompressedExt(a Point) []byte {
	if a.Inf {
		return make([]byte, 33)
	}
	return Compressed(a)
}

// Uncompressed is the SEC1 65-byte encoding 04 || x || y.
func Uncompressed(a Point) []byte {
	out := make([]byte, 65)
	out[0] = 4
	a.X.FillBytes(out[1:33])
	a.Y.FillBytes(out[33:])
	return out
}

// Hybrid is the 65-byte encoding 06/07 || x || y (06 even y, 07 odd y).
func Hybrid(a Point) []byte {
	out := Uncompressed(a)
	out[0] = 6 + byte(a.Y.Bit(0))
	return out
}

// ParsePubKey is the model of a SEC1 public key parser that admits exactly:
//
//	33 bytes: 02|03 || x,  x < p, x^3+7 a square; y is the root with the stated parity
//	65 bytes: 04 || x || y, x,y < p, on the curve
//	65 bytes: 06|07 || x || y, as 04 and additionally parity(y) = prefix&1
//
// Everything else (any other length or prefix, the infinity encoding "00")
// is rejected.
func ParsePubKey(b []byte) (Point, bool) {
	switch len(b) {
	case 33:
		if b[0] != 2 && b[0] != 3 {
			return Point{}, false
		}
		pt, ok := LiftX(Int(b[1:]))
		if !ok {
			return Point{}, false
		}
		if b[0] == 3 {
			pt = Neg(pt)
		}
		return pt, true
	case 65:
		if b[0] != 4 && b[0] != 6 && b[0] != 7 {
			return Point{}, false
		}
		pt := Point{X: Int(b[1:33]), Y: Int(b[33:])}
		if !IsOnCurve(pt) {
			return Point{}, false
		}
		if b[0] != 4 && byte(pt.Y.Bit(0)) != b[0]&1 {
			return Point{}, false
		}
		return pt, true
	}
	return Point{}, false
}

// CPoint is BIP327 cpoint: a 33-byte compressed encoding of a finite point.
func CPoint(b []byte) (Point, bool) {
	if len(b) != 33 {
		return Point{}, false
	}
	return ParsePubKey(b)
}

// CPointExt is BIP327 cpoint_ext: 33 zero bytes decode to infinity.
func CPointExt(b []byte) (Point, bool) {
	if len(b) != 33 {
		return Point{}, false
	}
	zero := true
	for _, c := range b {
		if c != 0 {
			zero = false
		}
	}
	if zero {
		return Infinity, true
	}
	return CPoint(b)
}

// ParseXOnly is the BIP340 public key parser: exactly 32 bytes, lift_x.
func ParseXOnly(b []byte) (Point, bool) {
	if len(b) != 32 {
		return Point{}, false
	}
	return LiftX(Int(b))
}

// TaggedHash is BIP340 hash_tag(x) = SHA256(SHA256(tag) || SHA256(tag) || x).
func TaggedHash(tag string, parts ...[]byte) []byte {
	t := sha256.Sum256([]byte(tag))
	h := sha256.New()
	h.Write(t[:])
	h.Write(t[:])
	for _, p := range parts {
		h.Write(p)
	}
	return h.Sum(nil)
}

// ECDH is the x coordinate of d*Q (RFC 5903 section 9), 32 bytes.
func ECDH(d *big.Int, q Point) []byte {
	s := ScalarMult(d, q)
	if s.Inf {
		return nil
	}
	return XBytes(s)
}

func modN(v *big.Int) *big.Int { return v.Mod(v, N) }
