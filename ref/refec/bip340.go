package refec

import "math/big"

// SchnorrVerify is BIP340 "Verify(pk, m, sig)" for 32-byte messages:
//
//	P = lift_x(int(pk)); r = int(sig[0:32]) < p; s = int(sig[32:64]) < n
//	e = int(hash_BIP0340/challenge(bytes(r) || bytes(P) || m)) mod n
//	R = s*G - e*P; fail if infinite, if y(R) is odd, or if x(R) != r
func SchnorrVerify(pk []byte, msg []byte, sig []byte) bool {
	if len(pk) != 32 || len(sig) != 64 {
		return false
	}
	Pt, ok := LiftX(Int(pk))
	if !ok {
		return false
	}
	r, s := Int(sig[:32]), Int(sig[32:])
	if r.Cmp(P) >= 0 || s.Cmp(N) >= 0 {
		return false
	}
	e := modN(Int(TaggedHash("BIP0340/challenge", Bytes32(r), XBytes(Pt), msg)))
	R := Add(ScalarMult(s, G), Neg(ScalarMult(e, Pt)))
	if R.Inf || !HasEvenY(R) {
		return false
	}
	return R.X.Cmp(r) == 0
}

// SchnorrNonceBIP340 is the default nonce derivation of BIP340 signing: it
// returns k' (before the parity correction) for secret key d' in [1,n-1].
func SchnorrNonceBIP340(dPrime *big.Int, msg []byte, aux []byte) (*big.Int, bool) {
	Pt := BaseMult(dPrime)
	d := new(big.Int).Set(dPrime)
	if !HasEvenY(Pt) {
		d.Sub(N, d)
	}
	t := Bytes32(d)
	a := TaggedHash("BIP0340/aux", aux)
	for i := range t {
		t[i] ^= a[i]
	}
	k := modN(Int(TaggedHash("BIP0340/nonce", t, XBytes(Pt), msg)))
	return k, k.Sign() != 0
}

// SchnorrSignWithNonce is BIP340 signing from step "R = k'*G" on, with a
// caller supplied k' in [1,n-1] and secret key d' in [1,n-1].
func SchnorrSignWithNonce(dPrime *big.Int, msg []byte, kPrime *big.Int) []byte {
	Pt := BaseMult(dPrime)
	d := new(big.Int).Set(dPrime)
	if !HasEvenY(Pt) {
		d.Sub(N, d)
	}
	R := BaseMult(kPrime)
	k := new(big.Int).Set(kPrime)
	if !HasEvenY(R) {
		k.Sub(N, k)
	}
	e := modN(Int(TaggedHash("BIP0340/challenge", XBytes(R), XBytes(Pt), msg)))
	s := new(big.Int).Mul(e, d)
	s.Add(s, k)
	modN(s)
	return append(XBytes(R), Bytes32(s)...)
}

// SchnorrSign is BIP340 "Sign(sk, m)" with auxiliary randomness aux (32 bytes).
func SchnorrSign(dPrime *big.Int, msg []byte, aux []byte) ([]byte, bool) {
	if dPrime.Sign() <= 0 || dPrime.Cmp(N) >= 0 {
		return nil, false
	}
	k, ok := SchnorrNonceBIP340(dPrime, msg, aux)
	if !ok {
		return nil, false
	}
	return SchnorrSignWithNonce(dPrime, msg, k), true
}
