package refec

import "math/big"

// DER model for ECDSA signatures: SEQUENCE { INTEGER r, INTEGER s } in the
// strict subset fixed by BIP66:
//
//	0x30 L 0x02 lr R 0x02 ls S        (all lengths single bytes < 0x80)
//	L = 4 + lr + ls = total length - 2
//	lr, ls >= 1; R and S are big-endian two's complement, non-negative (top
//	bit of the first byte clear) and minimal (a leading 0x00 only in front of
//	a byte with the top bit set)
//
// The signature hash type byte that follows the signature in transactions is
// NOT part of the strings handled here.

// DERInt returns the minimal DER content octets of a non-negative integer.
func DERInt(v *big.Int) []byte {
	if v.Sign() < 0 {
		panic("refec: DERInt negative")
	}
	b := v.Bytes()
	if len(b) == 0 {
		return []byte{0}
	}
	if b[0]&0x80 != 0 {
		b = append([]byte{0}, b...)
	}
	return b
}

// EncodeDER returns the canonical encoding of (r, s); it panics if it would
// need a multi-byte length.
func EncodeDER(r, s *big.Int) []byte {
	rb, sb := DERInt(r), DERInt(s)
	if 4+len(rb)+len(sb) > 0x7f {
		panic("refec: EncodeDER too long")
	}
	out := []byte{0x30, byte(4 + len(rb) + len(sb)), 0x02, byte(len(rb))}
	out = append(out, rb...)
	out = append(out, 0x02, byte(len(sb)))
	return append(out, sb...)
}

// IsStrictDER is BIP66 IsValidSignatureEncoding with the hash type byte
// removed (so every length bound is one smaller): the WHOLE string must be
// one canonical signature of 8..72 bytes.
func IsStrictDER(sig []byte) bool {
	// Minimum and maximum size constraints.
	if len(sig) < 8 || len(sig) > 72 {
		return false
	}
	// A signature is of type 0x30 (compound).
	if sig[0] != 0x30 {
		return false
	}
	// Make sure the length covers the entire signature.
	if int(sig[1]) != len(sig)-2 {
		return false
	}
	// Extract the length of the R element.
	lenR := int(sig[3])
	// Make sure the length of the S element is still inside the signature.
	if 5+lenR >= len(sig) {
		return false
	}
	// Extract the length of the S element.
	lenS := int(sig[5+lenR])
	// Verify that the length of the signature matches the sum of the length
	// of the elements.
	if lenR+lenS+6 != len(sig) {
		return false
	}
	// Check whether the R element is an integer.
	if sig[2] != 0x02 {
		return false
	}
	// Zero-length integers are not allowed for R.
	if lenR == 0 {
		return false
	}
	// Negative numbers are not allowed for R.
	if sig[4]&0x80 != 0 {
		return false
	}
	// Null bytes at the start of R are not allowed, unless R would otherwise
	// be interpreted as a negative number.
	if lenR > 1 && sig[4] == 0x00 && sig[5]&0x80 == 0 {
		return false
	}
	// Check whether the S element is an integer.
	if sig[lenR+4] != 0x02 {
		return false
	}
	// Zero-length integers are not allowed for S.
	if lenS == 0 {
		return false
	}
	// Negative numbers are not allowed for S.
	if sig[lenR+6]&0x80 != 0 {
		return false
	}
	// Null bytes at the start of S are not allowed, unless S would otherwise
	// be interpreted as a negative number.
	if lenS > 1 && sig[lenR+6] == 0x00 && sig[lenR+7]&0x80 == 0 {
		return false
	}
	return true
}

// ParseStrictDER decodes a string for which IsStrictDER holds.
func ParseStrictDER(sig []byte) (r, s *big.Int, ok bool) {
	if !IsStrictDER(sig) {
		return nil, nil, false
	}
	lenR := int(sig[3])
	lenS := int(sig[5+lenR])
	return Int(sig[4 : 4+lenR]), Int(sig[6+lenR : 6+lenR+lenS]), true
}

func inRange1N(v *big.Int) bool { return v.Sign() > 0 && v.Cmp(N) < 0 }

// ParseDERSigStrict is the model of a strict ECDSA signature parser:
// the whole string is canonical DER (BIP66) and r, s are in [1, n-1].
func ParseDERSigStrict(sig []byte) (r, s *big.Int, ok bool) {
	r, s, ok = ParseStrictDER(sig)
	if !ok || !inRange1N(r) || !inRange1N(s) {
		return nil, nil, false
	}
	return r, s, true
}

// ParseDERSigStrictPrefix is the strict parser in the variant btcd documents
// for ParseDERSignature: the buffer is at most 72 bytes, the SEQUENCE header
// delimits a prefix of the buffer which must be a canonical signature with
// r, s in [1, n-1]; bytes after that prefix ("trailing nonsense after the
// actual signature", e.g. a hash type byte) are ignored.
func ParseDERSigStrictPrefix(buf []byte) (r, s *big.Int, ok bool) {
	if len(buf) < 8 || len(buf) > 72 {
		return nil, nil, false
	}
	end := 2 + int(buf[1])
	if end > len(buf) {
		return nil, nil, false
	}
	return ParseDERSigStrict(buf[:end])
}

// ParseDERSigLax is the model of the lax ("BER, basic sanity checks") parser
// btcd documents for ParseSignature.  Compared with the strict parser it
//
//   - has no upper bound on the buffer length and ignores bytes after the
//     SEQUENCE (as the strict-prefix variant does),
//   - reads INTEGER contents as UNSIGNED big-endian numbers: a set top bit
//     does not make the value negative and any number of leading zero bytes
//     is allowed,
//
// and otherwise keeps the same structure: tags 0x30/0x02/0x02, definite
// short-form lengths, non-empty integers that fill the SEQUENCE exactly, and
// r, s in [1, n-1].
//
// defined is false when the verdict depends on a length octet >= 0x80 (BER
// long form / reserved values): real BER would read further length octets,
// btcd reads the octet as a plain number; the model takes no side there and
// callers must not demand a particular verdict.
func ParseDERSigLax(buf []byte) (r, s *big.Int, ok bool, defined bool) {
	if len(buf) < 8 {
		return nil, nil, false, true
	}
	if buf[0] != 0x30 {
		return nil, nil, false, true
	}
	if buf[1] >= 0x80 {
		return nil, nil, false, false
	}
	end := 2 + int(buf[1])
	if end > len(buf) || end < 8 {
		return nil, nil, false, true
	}
	seq := buf[2:end]
	// INTEGER r
	if seq[0] != 0x02 {
		return nil, nil, false, true
	}
	if seq[1] >= 0x80 {
		return nil, nil, false, false
	}
	lr := int(seq[1])
	// room for r and for tag, length and at least one content byte of s
	if lr == 0 || 2+lr+3 > len(seq) {
		return nil, nil, false, true
	}
	rb := seq[2 : 2+lr]
	r = Int(rb)
	if !inRange1N(r) {
		return nil, nil, false, true
	}
	rest := seq[2+lr:]
	if rest[0] != 0x02 {
		return nil, nil, false, true
	}
	if rest[1] >= 0x80 {
		return nil, nil, false, false
	}
	ls := int(rest[1])
	if ls == 0 || 2+ls != len(rest) {
		return nil, nil, false, true
	}
	s = Int(rest[2:])
	if !inRange1N(s) {
		return nil, nil, false, true
	}
	return r, s, true, true
}
