// Package refbip9 is a deliberately naive reference model of the BIP9
// version-bits deployment state machine, with the extensions btcd documents:
//
//   - BIP341 "speedy trial": a minimum activation height (LOCKED_IN is kept
//     until the first block of the next period has height >= the minimum), a
//     per-deployment threshold, and the revised failure rule (no DEFINED ->
//     FAILED; in STARTED reaching the threshold wins over the timeout);
//   - btcd's AlwaysActiveHeight: every block at or above that height is ACTIVE
//     whatever the history says (0 = unset).
//
// Everything is recomputed from the genesis block at every query: no cache, no
// incremental state, no shortcut.  Written from BIP9 / BIP341 and the field
// documentation in chaincfg.ConsensusDeployment, not from btcd's
// thresholdstate.go.
package refbip9

// State is a BIP9 deployment state.  The numeric values are those of the BIP9
// order DEFINED, STARTED, LOCKED_IN, ACTIVE, FAILED (which btcd also uses).
type State uint8

const (
	Defined State = iota
	Started
	LockedIn
	Active
	Failed
)

func (s State) String() string {
	switch s {
	case Defined:
		return "DEFINED"
	case Started:
		return "STARTED"
	case LockedIn:
		return "LOCKED_IN"
	case Active:
		return "ACTIVE"
	case Failed:
		return "FAILED"
	}
	return "?"
}

// Hdr is what the state machine can see of a block.
type Hdr struct {
	Version int32
	Time    int64
}

// Def is one deployment definition.
type Def struct {
	Bit uint8
	// Start / Timeout are median-time-past values in unix seconds.
	// StartAlways: the deployment is always eligible for voting (btcd: zero
	// start time).  NoTimeout: it never expires (btcd: zero end time).
	Start       int64
	StartAlways bool
	Timeout     int64
	NoTimeout   bool
	// MinActivationHeight 0 = none.
	MinActivationHeight uint32
	// CustomThreshold 0 = use the network threshold.
	CustomThreshold uint32
	// AlwaysActiveHeight 0 = unset.
	AlwaysActiveHeight uint32
}

// Net holds the network-level parameters.
type Net struct {
	Window    int
	Threshold uint32
}

// Speedy reports whether the deployment uses the speedy-trial rules.  btcd
// keeps the original BIP9 failure rules for plain deployments and applies the
// BIP341 revision to deployments that use one of the two speedy-trial
// parameters.
func (d Def) Speedy() bool { return d.MinActivationHeight != 0 || d.CustomThreshold != 0 }

// EffThreshold is the number of signalling blocks a period needs.
func (d Def) EffThreshold(n Net) uint32 {
	if d.CustomThreshold != 0 {
		return d.CustomThreshold
	}
	return n.Threshold
}

// Signals reports whether a block version signals for bit: the top three bits
// must be 001 and the bit must be set.
func Signals(version int32, bit uint8) bool {
	v := uint32(version)
	top := v >> 29
	return top == 1 && (v>>bit)&1 == 1
}

// MTP is the median time past of the last block of chain (GetMedianTimePast of
// that block): the median of the timestamps of the last 11 blocks including
// it; with fewer blocks, element n/2 of the sorted list (consensus behaviour).
func MTP(chain []Hdr) int64 {
	n := len(chain)
	k := 11
	if n < k {
		k = n
	}
	ts := make([]int64, 0, k)
	for i := n - k; i < n; i++ {
		ts = append(ts, chain[i].Time)
	}
	// plain insertion sort
	for i := 1; i < len(ts); i++ {
		for j := i; j > 0 && ts[j-1] > ts[j]; j-- {
			ts[j-1], ts[j] = ts[j], ts[j-1]
		}
	}
	return ts[len(ts)/2]
}

// In is the input of one period transition.
type In struct {
	TimeReachedStart   bool // MTP(last block of previous period) >= start
	TimeReachedTimeout bool // MTP(last block of previous period) >= timeout
	Count              uint32
	Threshold          uint32
	Speedy             bool
	MinHeightReached   bool // height of the first block of the new period >= min activation height
}

// Transition is the per-period transition function.
func Transition(s State, in In) State {
	switch s {
	case Defined:
		if !in.Speedy {
			// BIP9: timeout is examined first.
			if in.TimeReachedTimeout {
				return Failed
			}
			if in.TimeReachedStart {
				return Started
			}
			return Defined
		}
		// BIP341 revision: DEFINED never fails directly.
		if in.TimeReachedStart {
			return Started
		}
		return Defined
	case Started:
		if !in.Speedy {
			if in.TimeReachedTimeout {
				return Failed
			}
			if in.Count >= in.Threshold {
				return LockedIn
			}
			return Started
		}
		if in.Count >= in.Threshold {
			return LockedIn
		}
		if in.TimeReachedTimeout {
			return Failed
		}
		return Started
	case LockedIn:
		if in.MinHeightReached {
			return Active
		}
		return LockedIn
	case Active:
		return Active
	case Failed:
		return Failed
	}
	return s
}

// StateAfter returns the state that applies to the block following chain
// (chain = genesis .. previous block; empty chain = the state of the genesis
// block itself).
func StateAfter(chain []Hdr, d Def, n Net) State {
	next := len(chain) // height of the block whose state is asked
	if d.AlwaysActiveHeight != 0 && len(chain) > 0 && uint32(next) >= d.AlwaysActiveHeight {
		return Active
	}
	return MachineAfter(chain, d, n)
}

// MachineAfter is the pure state machine without the always-active override.
func MachineAfter(chain []Hdr, d Def, n Net) State {
	next := len(chain)
	s := Defined // period 0 (contains genesis) is DEFINED by definition
	// Period p covers heights [p*W, (p+1)*W).  The state of period p >= 1 is
	// the transition of period p-1's state, judged on period p-1's blocks.
	for p := 1; p*n.Window <= next; p++ {
		first := (p - 1) * n.Window
		end := p * n.Window // exclusive; also the height of period p's first block
		var cnt uint32
		for h := first; h < end; h++ {
			if Signals(chain[h].Version, d.Bit) {
				cnt++
			}
		}
		mtp := MTP(chain[:end])
		in := In{
			TimeReachedStart:   d.StartAlways || mtp >= d.Start,
			TimeReachedTimeout: !d.NoTimeout && mtp >= d.Timeout,
			Count:              cnt,
			Threshold:          d.EffThreshold(n),
			Speedy:             d.Speedy(),
			MinHeightReached:   d.MinActivationHeight == 0 || uint32(end) >= d.MinActivationHeight,
		}
		s = Transition(s, in)
	}
	return s
}

// NextVersion is the version a miner should propose for the block following
// chain: top bits 001 plus the bit of every deployment that is STARTED or
// LOCKED_IN for that block.
func NextVersion(chain []Hdr, defs []Def, n Net) int32 {
	v := uint32(0x20000000)
	for _, d := range defs {
		s := StateAfter(chain, d, n)
		if s == Started || s == LockedIn {
			v |= 1 << d.Bit
		}
	}
	return int32(v)
}
