package refwire

// Msg is the layout of one P2P message type.
type Msg struct {
	Cmd    string
	Fields []F
	// Defined says whether the message exists at a protocol version: Yes,
	// No (the BIP that introduced it names a later version) or Unspecified
	// (the documents do not say; nothing is demanded).
	Defined func(pver uint32) Tri
	Source  string
}

// Protocol versions at which layouts change (protocol documentation, BIPs).
const (
	VerVersionFull = 106   // version message carries addr_from, nonce, user_agent, start_height
	VerMultiAddr   = 209   // addr may carry more than one address
	VerAddrTime    = 31402 // addr entries carry a timestamp
	VerBIP31       = 60000 // ping carries a nonce and pong exists for versions GREATER than this
	VerBIP35       = 60002 // mempool
	VerBIP37       = 70001 // filterload/filteradd/filterclear/merkleblock, version.relay
	VerBIP61       = 70002 // reject
	VerBIP111      = 70011 // NODE_BLOOM service bit (no layout change)
	VerBIP130      = 70012 // sendheaders
	VerBIP133      = 70013 // feefilter
	VerBIP339      = 70016 // wtxidrelay (and the version btcd ties sendaddrv2 to)
)

func always(uint32) Tri { return Yes }

func from(v uint32) func(uint32) Tri {
	return func(p uint32) Tri {
		if p >= v {
			return Yes
		}
		return No
	}
}

// net_addr without the time field (as embedded in "version").
var netAddrNoTime = []F{
	{Name: "services", K: KU64},
	{Name: "ip", K: KFixed, N: 16},
	{Name: "port", K: KU16BE},
}

// net_addr as carried by "addr": time present from version 31402.
var netAddr = []F{
	{Name: "time", K: KU32, If: func(c Ctx, _ Rec) bool { return c.Pver >= VerAddrTime }},
	{Name: "services", K: KU64},
	{Name: "ip", K: KFixed, N: 16},
	{Name: "port", K: KU16BE},
}

// BIP155 address entry.
var netAddrV2 = []F{
	{Name: "time", K: KU32},
	{Name: "services", K: KCompact},
	{Name: "network_id", K: KU8},
	{Name: "addr", K: KVarBytes},
	{Name: "port", K: KU16BE},
}

// HeaderFields is the 80 byte block header.
var HeaderFields = []F{
	{Name: "version", K: KU32},
	{Name: "prev_block", K: KFixed, N: 32},
	{Name: "merkle_root", K: KFixed, N: 32},
	{Name: "timestamp", K: KU32},
	{Name: "bits", K: KU32},
	{Name: "nonce", K: KU32},
}

var invVect = []F{
	{Name: "type", K: KU32},
	{Name: "hash", K: KFixed, N: 32},
}

var invLayout = []F{{Name: "inventory", K: KList, Sub: invVect}}

var locatorLayout = []F{
	{Name: "version", K: KU32},
	{Name: "locator", K: KFixedList, N: 32},
	{Name: "hash_stop", K: KFixed, N: 32},
}

// TxFields / BlockFields are usable on their own (Serialize / Deserialize).
var TxFields = []F{{Name: "tx", K: KTx}}

var BlockFields = []F{
	{Name: "header", K: KStruct, Sub: HeaderFields},
	{Name: "txns", K: KTxList},
}

// HeaderOnly lays out a bare header record {"header": {...}}.
var HeaderOnly = []F{{Name: "header", K: KStruct, Sub: HeaderFields}}

// Messages is the table of all message types, in the order of btcd's command
// list.
var Messages = []*Msg{
	{Cmd: "version", Source: "protocol documentation; BIP14 (user_agent), BIP37 (relay)",
		Fields: []F{
			{Name: "version", K: KU32},
			{Name: "services", K: KU64},
			{Name: "timestamp", K: KU64},
			{Name: "addr_recv", K: KStruct, Sub: netAddrNoTime},
			{Name: "addr_from", K: KStruct, Sub: netAddrNoTime},
			{Name: "nonce", K: KU64},
			{Name: "user_agent", K: KVarBytes},
			{Name: "start_height", K: KU32},
			{Name: "relay", K: KBool, If: func(c Ctx, _ Rec) bool { return c.Pver >= VerBIP37 }},
		},
		Defined: func(p uint32) Tri {
			if p >= VerVersionFull {
				return Yes
			}
			return Unspecified // pre-106 peers used a 4 field message
		}},
	{Cmd: "verack", Defined: always, Source: "protocol documentation"},
	{Cmd: "getaddr", Defined: always, Source: "protocol documentation"},
	{Cmd: "addr", Defined: always, Source: "protocol documentation",
		Fields: []F{{Name: "addr_list", K: KList, Sub: netAddr}}},
	{Cmd: "addrv2", Defined: always, Source: "BIP155",
		Fields: []F{{Name: "addr_list", K: KList, Sub: netAddrV2}}},
	{Cmd: "getblocks", Defined: always, Source: "protocol documentation", Fields: locatorLayout},
	{Cmd: "inv", Defined: always, Source: "protocol documentation, BIP144 inv types", Fields: invLayout},
	{Cmd: "getdata", Defined: always, Source: "protocol documentation", Fields: invLayout},
	{Cmd: "notfound", Defined: always, Source: "protocol documentation", Fields: invLayout},
	{Cmd: "block", Defined: always, Source: "protocol documentation, BIP144", Fields: BlockFields},
	{Cmd: "tx", Defined: always, Source: "protocol documentation, BIP144", Fields: TxFields},
	{Cmd: "getheaders", Defined: always, Source: "protocol documentation", Fields: locatorLayout},
	{Cmd: "headers", Defined: always, Source: "protocol documentation",
		Fields: []F{{Name: "headers", K: KList, Sub: append(append([]F(nil), HeaderFields...), F{Name: "txn_count", K: KZero})}}},
	{Cmd: "ping", Defined: always, Source: "BIP31",
		Fields: []F{{Name: "nonce", K: KU64, If: func(c Ctx, _ Rec) bool { return c.Pver > VerBIP31 }}}},
	{Cmd: "pong", Source: "BIP31",
		Fields: []F{{Name: "nonce", K: KU64}},
		Defined: func(p uint32) Tri {
			if p > VerBIP31 {
				return Yes
			}
			return No
		}},
	{Cmd: "mempool", Defined: from(VerBIP35), Source: "BIP35"},
	{Cmd: "filteradd", Defined: from(VerBIP37), Source: "BIP37",
		Fields: []F{{Name: "data", K: KVarBytes}}},
	{Cmd: "filterclear", Defined: from(VerBIP37), Source: "BIP37"},
	{Cmd: "filterload", Defined: from(VerBIP37), Source: "BIP37",
		Fields: []F{
			{Name: "filter", K: KVarBytes},
			{Name: "n_hash_funcs", K: KU32},
			{Name: "n_tweak", K: KU32},
			{Name: "n_flags", K: KU8},
		}},
	{Cmd: "merkleblock", Defined: from(VerBIP37), Source: "BIP37",
		Fields: []F{
			{Name: "header", K: KStruct, Sub: HeaderFields},
			{Name: "total_transactions", K: KU32},
			{Name: "hashes", K: KFixedList, N: 32},
			{Name: "flags", K: KVarBytes},
		}},
	{Cmd: "reject", Defined: from(VerBIP61), Source: "BIP61",
		Fields: []F{
			{Name: "message", K: KVarBytes},
			{Name: "ccode", K: KU8},
			{Name: "reason", K: KVarBytes},
			// BIP61: "data" is the 32 byte hash of the rejected object for
			// rejections of tx and block messages, absent otherwise.
			{Name: "data", K: KFixed, N: 32, If: func(_ Ctx, r Rec) bool {
				m := string(r.B("message"))
				return m == "tx" || m == "block"
			}},
		}},
	{Cmd: "sendheaders", Defined: from(VerBIP130), Source: "BIP130"},
	{Cmd: "feefilter", Defined: from(VerBIP133), Source: "BIP133",
		Fields: []F{{Name: "feerate", K: KU64}}},
	{Cmd: "getcfilters", Defined: always, Source: "BIP157",
		Fields: []F{
			{Name: "filter_type", K: KU8},
			{Name: "start_height", K: KU32},
			{Name: "stop_hash", K: KFixed, N: 32},
		}},
	{Cmd: "getcfheaders", Defined: always, Source: "BIP157",
		Fields: []F{
			{Name: "filter_type", K: KU8},
			{Name: "start_height", K: KU32},
			{Name: "stop_hash", K: KFixed, N: 32},
		}},
	{Cmd: "getcfcheckpt", Defined: always, Source: "BIP157",
		Fields: []F{
			{Name: "filter_type", K: KU8},
			{Name: "stop_hash", K: KFixed, N: 32},
		}},
	{Cmd: "cfilter", Defined: always, Source: "BIP157",
		Fields: []F{
			{Name: "filter_type", K: KU8},
			{Name: "block_hash", K: KFixed, N: 32},
			{Name: "filter_bytes", K: KVarBytes},
		}},
	{Cmd: "cfheaders", Defined: always, Source: "BIP157",
		Fields: []F{
			{Name: "filter_type", K: KU8},
			{Name: "stop_hash", K: KFixed, N: 32},
			{Name: "previous_filter_header", K: KFixed, N: 32},
			{Name: "filter_hashes", K: KFixedList, N: 32},
		}},
	{Cmd: "cfcheckpt", Defined: always, Source: "BIP157",
		Fields: []F{
			{Name: "filter_type", K: KU8},
			{Name: "stop_hash", K: KFixed, N: 32},
			{Name: "filter_headers", K: KFixedList, N: 32},
		}},
	{Cmd: "sendaddrv2", Source: "BIP155",
		Defined: func(p uint32) Tri {
			if p >= VerBIP339 {
				return Yes
			}
			return Unspecified // BIP155 names no version
		}},
	{Cmd: "wtxidrelay", Defined: from(VerBIP339), Source: "BIP339"},
}

// ByCmd finds a message layout.
func ByCmd(cmd string) *Msg {
	for _, m := range Messages {
		if m.Cmd == cmd {
			return m
		}
	}
	return nil
}

// BIP155 network ids and their address lengths.
var AddrV2Len = map[uint8]int{
	1: 4,  // IPV4
	2: 16, // IPV6
	3: 10, // TORV2
	4: 32, // TORV3
	5: 32, // I2P
	6: 16, // CJDNS
}

// AddrV2MaxLen is the BIP155 bound on the addr field ("Clients MUST reject
// messages with a longer addr field, irrespective of the network ID").
const AddrV2MaxLen = 512

// AddrV2Ignorable reports whether a BIP155 entry is one that a receiver is
// allowed (or required) to drop instead of storing it: unknown network ids
// ("clients MUST ignore address types that they do not know about"), and
// IPv6 entries that are really OnionCat (fd87:d87e:eb43::/48) or IPv4-mapped
// (::ffff:0:0/96) addresses, which BIP155 says MUST NOT be sent with id 2 and
// SHOULD be ignored.  I2P (5) and CJDNS (6) are defined ids; a receiver without
// support for those networks may drop them as well.
func AddrV2Ignorable(id uint64, addr []byte) bool {
	if id < 1 || id > 4 {
		return true
	}
	if id == 2 && len(addr) == 16 {
		onioncat := []byte{0xfd, 0x87, 0xd8, 0x7e, 0xeb, 0x43}
		mapped := []byte{0, 0, 0, 0, 0, 0, 0, 0, 0, 0, 0xff, 0xff}
		if string(addr[:6]) == string(onioncat) || string(addr[:12]) == string(mapped) {
			return true
		}
	}
	return false
}
