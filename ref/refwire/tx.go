package refwire

import (
	"errors"
	"fmt"
)

// Transaction records:
//
//	{"version": u32, "vin": []Rec{{"prev_hash": 32 bytes, "prev_index": u32,
//	  "script": bytes, "sequence": u32, "witness": [][]byte}},
//	 "vout": []Rec{{"value": u64 (two's complement of the int64), "pk_script": bytes}},
//	 "lock_time": u32}
//
// Layout (protocol documentation "tx", BIP144):
//
//	legacy : nVersion | txin_count | txins | txout_count | txouts | nLockTime
//	witness: nVersion | marker 0x00 | flag 0x01 | txin_count | txins |
//	         txout_count | txouts | script_witnesses | nLockTime
//
// BIP144: "If the witness is empty, the old serialization format must be
// used."  So the witness form is used iff the context allows it and at least
// one input has a non-empty witness stack.

// TxHasWitness reports whether any input carries a non-empty witness stack.
func TxHasWitness(t Rec) bool {
	for _, in := range t.L("vin") {
		if len(in.BL("witness")) != 0 {
			return true
		}
	}
	return false
}

func (e *encoder) tx(t Rec, path string) {
	wit := e.c.Witness && TxHasWitness(t)
	e.put(le(t.U("version"), 4), path+"version", ClassData, t.U("version")&0xffffffff)
	if wit {
		e.put([]byte{0x00, 0x01}, path+"segwit_marker_flag", ClassFlag, 0)
	}
	vin := t.L("vin")
	e.put(CompactSize(uint64(len(vin))), path+"vin.count", ClassCount, uint64(len(vin)))
	for i, in := range vin {
		p := e.pth("%svin[%d].", path, i)
		h := in.B("prev_hash")
		if len(h) != 32 {
			panic("refwire: prev_hash must be 32 bytes")
		}
		e.put(h, p+"prev_hash", ClassData, 0)
		e.put(le(in.U("prev_index"), 4), p+"prev_index", ClassData, in.U("prev_index"))
		s := in.B("script")
		e.put(CompactSize(uint64(len(s))), p+"script.len", ClassCount, uint64(len(s)))
		e.put(s, p+"script", ClassData, 0)
		e.put(le(in.U("sequence"), 4), p+"sequence", ClassData, in.U("sequence"))
	}
	vout := t.L("vout")
	e.put(CompactSize(uint64(len(vout))), path+"vout.count", ClassCount, uint64(len(vout)))
	for i, out := range vout {
		p := e.pth("%svout[%d].", path, i)
		e.put(le(out.U("value"), 8), p+"value", ClassData, out.U("value"))
		s := out.B("pk_script")
		e.put(CompactSize(uint64(len(s))), p+"pk_script.len", ClassCount, uint64(len(s)))
		e.put(s, p+"pk_script", ClassData, 0)
	}
	if wit {
		for i, in := range vin {
			p := e.pth("%svin[%d].witness", path, i)
			w := in.BL("witness")
			e.put(CompactSize(uint64(len(w))), p+".count", ClassCount, uint64(len(w)))
			for j, item := range w {
				e.put(CompactSize(uint64(len(item))), e.pth("%s[%d].len", p, j), ClassCount, uint64(len(item)))
				e.put(item, e.pth("%s[%d]", p, j), ClassData, 0)
			}
		}
	}
	e.put(le(t.U("lock_time"), 4), path+"lock_time", ClassData, t.U("lock_time"))
}

// EncodeTx serialises one transaction.
func EncodeTx(t Rec, witness bool) ([]byte, []Span) {
	e := &encoder{c: Ctx{Witness: witness}}
	e.tx(t, "")
	return e.b, e.spans
}

// EncodeTxBytes is EncodeTx without the span bookkeeping.
func EncodeTxBytes(t Rec, witness bool) []byte {
	e := &encoder{c: Ctx{Witness: witness}, noSpans: true}
	e.tx(t, "")
	return e.b
}

// TxID is the double SHA256 of the legacy serialisation (BIP141 "txid").
func TxID(t Rec) [32]byte {
	return DSha256(EncodeTxBytes(t, false))
}

// WTxID is the double SHA256 of the BIP144 serialisation (BIP141 "wtxid"); it
// equals the txid when the transaction carries no witness.
func WTxID(t Rec) [32]byte {
	return DSha256(EncodeTxBytes(t, true))
}

// tx parses one transaction.  With d.c.Witness a zero input count is the
// BIP144 marker and must be followed by flag 0x01.
func (d *decoder) tx() (Rec, error) {
	t := Rec{}
	v, err := d.uint(4)
	if err != nil {
		return nil, err
	}
	t["version"] = v
	n, err := d.count(41)
	if err != nil {
		return nil, err
	}
	wit := false
	if n == 0 && d.c.Witness {
		fl, err := d.uint(1)
		if err != nil {
			return nil, err
		}
		if fl != 1 {
			return nil, errors.New("refwire: unknown segwit flag")
		}
		wit = true
		n, err = d.count(41)
		if err != nil {
			return nil, err
		}
	}
	vin := make([]Rec, 0)
	for i := 0; i < n; i++ {
		in := Rec{}
		h, err := d.take(32)
		if err != nil {
			return nil, err
		}
		in["prev_hash"] = append([]byte(nil), h...)
		if in["prev_index"], err = d.uint(4); err != nil {
			return nil, err
		}
		sl, err := d.count(1)
		if err != nil {
			return nil, err
		}
		s, err := d.take(sl)
		if err != nil {
			return nil, err
		}
		in["script"] = append([]byte(nil), s...)
		if in["sequence"], err = d.uint(4); err != nil {
			return nil, err
		}
		in["witness"] = [][]byte(nil)
		vin = append(vin, in)
	}
	t["vin"] = vin
	n, err = d.count(9)
	if err != nil {
		return nil, err
	}
	vout := make([]Rec, 0)
	for i := 0; i < n; i++ {
		out := Rec{}
		if out["value"], err = d.uint(8); err != nil {
			return nil, err
		}
		sl, err := d.count(1)
		if err != nil {
			return nil, err
		}
		s, err := d.take(sl)
		if err != nil {
			return nil, err
		}
		out["pk_script"] = append([]byte(nil), s...)
		vout = append(vout, out)
	}
	t["vout"] = vout
	if wit {
		any := false
		for _, in := range vin {
			wn, err := d.count(1)
			if err != nil {
				return nil, err
			}
			w := make([][]byte, 0)
			for j := 0; j < wn; j++ {
				il, err := d.count(1)
				if err != nil {
					return nil, err
				}
				it, err := d.take(il)
				if err != nil {
					return nil, err
				}
				w = append(w, append([]byte(nil), it...))
			}
			if wn > 0 {
				any = true
			}
			in["witness"] = w
		}
		if !any {
			return nil, errors.New("refwire: witness flag set but no witness (BIP144: must use the old format)")
		}
	}
	if t["lock_time"], err = d.uint(4); err != nil {
		return nil, err
	}
	return t, nil
}

// DecodeTx parses one transaction and returns it with the bytes consumed.
func DecodeTx(b []byte, witness bool) (Rec, int, error) {
	d := &decoder{b: b, c: Ctx{Witness: witness}}
	t, err := d.tx()
	return t, d.off, err
}

func eqTx(a, b Rec, c Ctx, path string) string {
	if a.U("version")&0xffffffff != b.U("version")&0xffffffff {
		return path + "version"
	}
	ia, ib := a.L("vin"), b.L("vin")
	if len(ia) != len(ib) {
		return path + "vin.count"
	}
	for i := range ia {
		p := fmt.Sprintf("%svin[%d].", path, i)
		if !eqBytes(ia[i].B("prev_hash"), ib[i].B("prev_hash")) {
			return p + "prev_hash"
		}
		if ia[i].U("prev_index") != ib[i].U("prev_index") {
			return p + "prev_index"
		}
		if !eqBytes(ia[i].B("script"), ib[i].B("script")) {
			return p + "script"
		}
		if ia[i].U("sequence") != ib[i].U("sequence") {
			return p + "sequence"
		}
		if c.Witness {
			wa, wb := ia[i].BL("witness"), ib[i].BL("witness")
			if len(wa) != len(wb) {
				return p + "witness.count"
			}
			for j := range wa {
				if !eqBytes(wa[j], wb[j]) {
					return fmt.Sprintf("%switness[%d]", p, j)
				}
			}
		}
	}
	oa, ob := a.L("vout"), b.L("vout")
	if len(oa) != len(ob) {
		return path + "vout.count"
	}
	for i := range oa {
		p := fmt.Sprintf("%svout[%d].", path, i)
		if oa[i].U("value") != ob[i].U("value") {
			return p + "value"
		}
		if !eqBytes(oa[i].B("pk_script"), ob[i].B("pk_script")) {
			return p + "pk_script"
		}
	}
	if a.U("lock_time") != b.U("lock_time") {
		return path + "lock_time"
	}
	return ""
}

// MerkleRoot computes the Bitcoin merkle root of the given leaves (pairwise
// double SHA256, the last element duplicated on odd levels).
func MerkleRoot(leaves [][32]byte) [32]byte {
	if len(leaves) == 0 {
		return [32]byte{}
	}
	level := append([][32]byte(nil), leaves...)
	for len(level) > 1 {
		if len(level)%2 == 1 {
			level = append(level, level[len(level)-1])
		}
		next := make([][32]byte, 0, len(level)/2)
		for i := 0; i < len(level); i += 2 {
			cat := append(append([]byte(nil), level[i][:]...), level[i+1][:]...)
			next = append(next, DSha256(cat))
		}
		level = next
	}
	return level[0]
}

// ---------------------------------------------------------------------------
// message framing (protocol documentation "Message structure")
//
//	magic u32le | command char[12] NUL padded | length u32le |
//	checksum = first 4 bytes of sha256(sha256(payload)) | payload

// Frame wraps a payload.
func Frame(magic uint32, command string, payload []byte) []byte {
	if len(command) > 12 {
		panic("refwire: command too long")
	}
	b := le(uint64(magic), 4)
	cmd := make([]byte, 12)
	copy(cmd, command)
	b = append(b, cmd...)
	b = append(b, le(uint64(len(payload)), 4)...)
	cs := DSha256(payload)
	b = append(b, cs[:4]...)
	return append(b, payload...)
}

// ---------------------------------------------------------------------------
// BIP324 (v2 transport) plaintext contents
//
//	message type: 1 byte short id (1..255), or 0x00 followed by the 12 byte
//	NUL padded ASCII command; then the payload, identical to the v1 payload.
//
// V2ShortID is the complete short id table of BIP324 ("v2 Bitcoin P2P message
// structure"): all 28 assignments, including those of message types this wire
// package does not implement (BIP152).
var V2ShortID = map[string]uint8{
	"addr": 1, "block": 2, "blocktxn": 3, "cmpctblock": 4, "feefilter": 5,
	"filteradd": 6, "filterclear": 7, "filterload": 8, "getblocks": 9,
	"getblocktxn": 10, "getdata": 11, "getheaders": 12, "headers": 13,
	"inv": 14, "mempool": 15, "merkleblock": 16, "notfound": 17, "ping": 18,
	"pong": 19, "sendcmpct": 20, "tx": 21, "getcfilters": 22, "cfilter": 23,
	"getcfheaders": 24, "cfheaders": 25, "getcfcheckpt": 26, "cfcheckpt": 27,
	"addrv2": 28,
}

// V2Header is the message type prefix of a v2 plaintext.
func V2Header(command string) []byte {
	if id, ok := V2ShortID[command]; ok {
		return []byte{id}
	}
	if len(command) > 12 {
		panic("refwire: command too long")
	}
	b := make([]byte, 13)
	copy(b[1:], command)
	return b
}

// FrameV2 is the BIP324 plaintext of one message.
func FrameV2(command string, payload []byte) []byte {
	return append(V2Header(command), payload...)
}
