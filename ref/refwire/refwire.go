// Package refwire is an independent, deliberately naive, table-driven
// description of the byte layout of the Bitcoin P2P messages that btcd's wire
// package implements.  It was written from the protocol documentation
// (https://en.bitcoin.it/wiki/Protocol_documentation) and the BIPs that changed
// the layouts (BIP14, 31, 35, 37, 61, 111, 130, 133, 144, 155, 157, 339), not
// from btcd's code, and it never calls into btcd.
//
// A message value is a generic record (Rec); the layout of a message is a list
// of field descriptors (F) whose presence may depend on the negotiated protocol
// version and on whether the BIP144 witness serialisation is in use (Ctx).
// Encode walks the table and produces the bytes plus the spans of every field,
// Decode is the strict inverse (it rejects non-minimal CompactSize integers and
// knows no implementation limits).
package refwire

import (
	"bytes"
	"crypto/sha256"
	"errors"
	"fmt"
)

// Ctx is the context a layout depends on.
type Ctx struct {
	Pver    uint32 // negotiated protocol version
	Witness bool   // BIP144: transactions may use the witness serialisation
}

// Rec is a generic record: field name -> uint64 | []byte | [][]byte | Rec | []Rec.
type Rec map[string]interface{}

// Kind enumerates the primitive encodings used by the protocol.
type Kind int

const (
	KU8        Kind = iota // 1 byte
	KU16BE                 // 2 bytes big endian (network byte order: ports)
	KU32                   // 4 bytes little endian
	KU64                   // 8 bytes little endian
	KCompact               // CompactSize encoded integer
	KBool                  // 1 byte, 0 or 1
	KFixed                 // N raw bytes
	KVarBytes              // CompactSize length followed by that many bytes
	KStruct                // Sub fields in order; value Rec
	KList                  // CompactSize count, then count elements laid out per Sub; value []Rec
	KFixedList             // CompactSize count, then count elements of N raw bytes; value [][]byte
	KTx                    // one transaction (BIP144 aware); value Rec
	KTxList                // CompactSize count, then count transactions; value []Rec
	KZero                  // a CompactSize that is always 0 (the tx count after each header in "headers")
)

// F describes one field of a layout.
type F struct {
	Name string
	K    Kind
	N    int
	Sub  []F
	// If decides whether the field is present on the wire; nil means always.
	// r is the enclosing record as far as it is known (all of it while
	// encoding, the fields before this one while decoding).
	If func(c Ctx, r Rec) bool
}

// SpanClass classifies a span of the encoding.
type SpanClass int

const (
	ClassData  SpanClass = iota // opaque bytes, integers
	ClassCount                  // CompactSize that announces a count or a length
	ClassFlag                   // segwit marker+flag
)

// Span locates one field inside an encoding.
type Span struct {
	Off, Len int
	Path     string
	Class    SpanClass
	Val      uint64 // decoded integer for integer / count spans
}

// Tri is a three valued answer.
type Tri int

const (
	No Tri = iota
	Yes
	Unspecified
)

// ---------------------------------------------------------------------------
// primitive encoders

// CompactSize returns the canonical CompactSize ("var_int") encoding of v.
func CompactSize(v uint64) []byte {
	switch {
	case v < 0xfd:
		return []byte{byte(v)}
	case v <= 0xffff:
		return []byte{0xfd, byte(v), byte(v >> 8)}
	case v <= 0xffffffff:
		return []byte{0xfe, byte(v), byte(v >> 8), byte(v >> 16), byte(v >> 24)}
	default:
		return []byte{0xff, byte(v), byte(v >> 8), byte(v >> 16), byte(v >> 24),
			byte(v >> 32), byte(v >> 40), byte(v >> 48), byte(v >> 56)}
	}
}

// CompactSizeWide returns v encoded with the given discriminant width
// (1, 3, 5 or 9 bytes) whether or not that is the minimal one.  Used to build
// non-canonical encodings.  ok is false if v does not fit.
func CompactSizeWide(v uint64, width int) (b []byte, ok bool) {
	switch width {
	case 1:
		if v >= 0xfd {
			return nil, false
		}
		return []byte{byte(v)}, true
	case 3:
		if v > 0xffff {
			return nil, false
		}
		return []byte{0xfd, byte(v), byte(v >> 8)}, true
	case 5:
		if v > 0xffffffff {
			return nil, false
		}
		return []byte{0xfe, byte(v), byte(v >> 8), byte(v >> 16), byte(v >> 24)}, true
	case 9:
		return []byte{0xff, byte(v), byte(v >> 8), byte(v >> 16), byte(v >> 24),
			byte(v >> 32), byte(v >> 40), byte(v >> 48), byte(v >> 56)}, true
	}
	return nil, false
}

func le(v uint64, n int) []byte {
	b := make([]byte, n)
	for i := 0; i < n; i++ {
		b[i] = byte(v >> (8 * uint(i)))
	}
	return b
}

// DSha256 is SHA256(SHA256(b)).
func DSha256(b []byte) [32]byte {
	h := sha256.Sum256(b)
	return sha256.Sum256(h[:])
}

// ---------------------------------------------------------------------------
// encoder

type encoder struct {
	b       []byte
	spans   []Span
	noSpans bool
	c       Ctx
}

func (e *encoder) put(b []byte, path string, class SpanClass, val uint64) {
	if !e.noSpans {
		e.spans = append(e.spans, Span{Off: len(e.b), Len: len(b), Path: path, Class: class, Val: val})
	}
	e.b = append(e.b, b...)
}

// pth builds a span path only when spans are recorded.
func (e *encoder) pth(format string, a ...interface{}) string {
	if e.noSpans {
		return ""
	}
	return fmt.Sprintf(format, a...)
}

// U fetches an integer field.
func (r Rec) U(name string) uint64 {
	v, ok := r[name]
	if !ok {
		panic("refwire: missing integer field " + name)
	}
	u, ok := v.(uint64)
	if !ok {
		panic(fmt.Sprintf("refwire: field %s is %T, want uint64", name, v))
	}
	return u
}

// B fetches a byte-string field (nil and absent are the empty string).
func (r Rec) B(name string) []byte {
	v, ok := r[name]
	if !ok || v == nil {
		return nil
	}
	b, ok := v.([]byte)
	if !ok {
		panic(fmt.Sprintf("refwire: field %s is %T, want []byte", name, v))
	}
	return b
}

// L fetches a list-of-records field.
func (r Rec) L(name string) []Rec {
	v, ok := r[name]
	if !ok || v == nil {
		return nil
	}
	l, ok := v.([]Rec)
	if !ok {
		panic(fmt.Sprintf("refwire: field %s is %T, want []Rec", name, v))
	}
	return l
}

// BL fetches a list-of-byte-strings field.
func (r Rec) BL(name string) [][]byte {
	v, ok := r[name]
	if !ok || v == nil {
		return nil
	}
	l, ok := v.([][]byte)
	if !ok {
		panic(fmt.Sprintf("refwire: field %s is %T, want [][]byte", name, v))
	}
	return l
}

// R fetches a sub-record field.
func (r Rec) R(name string) Rec {
	v, ok := r[name]
	if !ok {
		panic("refwire: missing record field " + name)
	}
	s, ok := v.(Rec)
	if !ok {
		panic(fmt.Sprintf("refwire: field %s is %T, want Rec", name, v))
	}
	return s
}

func (e *encoder) fields(fs []F, r Rec, path string) {
	for i := range fs {
		f := &fs[i]
		if f.If != nil && !f.If(e.c, r) {
			continue
		}
		p := path + f.Name
		switch f.K {
		case KU8:
			v := r.U(f.Name)
			e.put([]byte{byte(v)}, p, ClassData, v&0xff)
		case KU16BE:
			v := r.U(f.Name)
			e.put([]byte{byte(v >> 8), byte(v)}, p, ClassData, v&0xffff)
		case KU32:
			v := r.U(f.Name)
			e.put(le(v, 4), p, ClassData, v&0xffffffff)
		case KU64:
			v := r.U(f.Name)
			e.put(le(v, 8), p, ClassData, v)
		case KCompact:
			v := r.U(f.Name)
			e.put(CompactSize(v), p, ClassData, v)
		case KBool:
			v := r.U(f.Name)
			if v > 1 {
				panic("refwire: bool field " + f.Name + " out of range")
			}
			e.put([]byte{byte(v)}, p, ClassData, v)
		case KFixed:
			b := r.B(f.Name)
			if len(b) != f.N {
				panic(fmt.Sprintf("refwire: fixed field %s has %d bytes, want %d", f.Name, len(b), f.N))
			}
			e.put(b, p, ClassData, 0)
		case KVarBytes:
			b := r.B(f.Name)
			e.put(CompactSize(uint64(len(b))), p+".len", ClassCount, uint64(len(b)))
			e.put(b, p, ClassData, 0)
		case KStruct:
			e.fields(f.Sub, r.R(f.Name), p+".")
		case KList:
			l := r.L(f.Name)
			e.put(CompactSize(uint64(len(l))), p+".count", ClassCount, uint64(len(l)))
			for j, el := range l {
				e.fields(f.Sub, el, e.pth("%s[%d].", p, j))
			}
		case KFixedList:
			l := r.BL(f.Name)
			e.put(CompactSize(uint64(len(l))), p+".count", ClassCount, uint64(len(l)))
			for j, el := range l {
				if len(el) != f.N {
					panic(fmt.Sprintf("refwire: element of %s has %d bytes, want %d", f.Name, len(el), f.N))
				}
				e.put(el, e.pth("%s[%d]", p, j), ClassData, 0)
			}
		case KTx:
			e.tx(r.R(f.Name), p+".")
		case KTxList:
			l := r.L(f.Name)
			e.put(CompactSize(uint64(len(l))), p+".count", ClassCount, uint64(len(l)))
			for j, el := range l {
				e.tx(el, e.pth("%s[%d].", p, j))
			}
		case KZero:
			e.put([]byte{0}, p, ClassCount, 0)
		default:
			panic("refwire: unknown kind")
		}
	}
}

// Encode lays the record out per the table and reports the span of every
// field.  A malformed record is a harness bug and panics.
func Encode(fs []F, r Rec, c Ctx) ([]byte, []Span) {
	e := &encoder{c: c}
	e.fields(fs, r, "")
	return e.b, e.spans
}

// EncodeBytes is Encode without the span bookkeeping.
func EncodeBytes(fs []F, r Rec, c Ctx) []byte {
	e := &encoder{c: c, noSpans: true}
	e.fields(fs, r, "")
	return e.b
}

// ---------------------------------------------------------------------------
// strict decoder (used to bind the tables to shipped vectors and to split
// addrv2 payloads); knows no implementation limits except that a claimed
// length must be backed by input bytes.

var ErrShort = errors.New("refwire: input too short")
var ErrNonCanonical = errors.New("refwire: non-canonical CompactSize")

type decoder struct {
	b   []byte
	off int
	c   Ctx
}

func (d *decoder) take(n int) ([]byte, error) {
	if n < 0 || len(d.b)-d.off < n {
		return nil, ErrShort
	}
	s := d.b[d.off : d.off+n]
	d.off += n
	return s, nil
}

func (d *decoder) uint(n int) (uint64, error) {
	s, err := d.take(n)
	if err != nil {
		return 0, err
	}
	var v uint64
	for i := n - 1; i >= 0; i-- {
		v = v<<8 | uint64(s[i])
	}
	return v, nil
}

func (d *decoder) compact() (uint64, error) {
	s, err := d.take(1)
	if err != nil {
		return 0, err
	}
	switch s[0] {
	case 0xfd:
		v, err := d.uint(2)
		if err != nil {
			return 0, err
		}
		if v < 0xfd {
			return 0, ErrNonCanonical
		}
		return v, nil
	case 0xfe:
		v, err := d.uint(4)
		if err != nil {
			return 0, err
		}
		if v <= 0xffff {
			return 0, ErrNonCanonical
		}
		return v, nil
	case 0xff:
		v, err := d.uint(8)
		if err != nil {
			return 0, err
		}
		if v <= 0xffffffff {
			return 0, ErrNonCanonical
		}
		return v, nil
	}
	return uint64(s[0]), nil
}

func (d *decoder) count(minElem int) (int, error) {
	v, err := d.compact()
	if err != nil {
		return 0, err
	}
	if minElem > 0 && v > uint64((len(d.b)-d.off)/minElem) {
		return 0, ErrShort
	}
	if v > uint64(len(d.b)) {
		return 0, ErrShort
	}
	return int(v), nil
}

func (d *decoder) fields(fs []F, r Rec) error {
	for i := range fs {
		f := &fs[i]
		if f.If != nil && !f.If(d.c, r) {
			continue
		}
		switch f.K {
		case KU8, KBool:
			v, err := d.uint(1)
			if err != nil {
				return err
			}
			if f.K == KBool && v > 1 {
				return errors.New("refwire: bool out of range")
			}
			r[f.Name] = v
		case KU16BE:
			s, err := d.take(2)
			if err != nil {
				return err
			}
			r[f.Name] = uint64(s[0])<<8 | uint64(s[1])
		case KU32:
			v, err := d.uint(4)
			if err != nil {
				return err
			}
			r[f.Name] = v
		case KU64:
			v, err := d.uint(8)
			if err != nil {
				return err
			}
			r[f.Name] = v
		case KCompact:
			v, err := d.compact()
			if err != nil {
				return err
			}
			r[f.Name] = v
		case KFixed:
			s, err := d.take(f.N)
			if err != nil {
				return err
			}
			r[f.Name] = append([]byte(nil), s...)
		case KVarBytes:
			n, err := d.count(1)
			if err != nil {
				return err
			}
			s, err := d.take(n)
			if err != nil {
				return err
			}
			r[f.Name] = append([]byte(nil), s...)
		case KStruct:
			sub := Rec{}
			if err := d.fields(f.Sub, sub); err != nil {
				return err
			}
			r[f.Name] = sub
		case KList:
			n, err := d.count(0)
			if err != nil {
				return err
			}
			l := make([]Rec, 0)
			for j := 0; j < n; j++ {
				sub := Rec{}
				if err := d.fields(f.Sub, sub); err != nil {
					return err
				}
				l = append(l, sub)
			}
			r[f.Name] = l
		case KFixedList:
			n, err := d.count(f.N)
			if err != nil {
				return err
			}
			l := make([][]byte, 0)
			for j := 0; j < n; j++ {
				s, err := d.take(f.N)
				if err != nil {
					return err
				}
				l = append(l, append([]byte(nil), s...))
			}
			r[f.Name] = l
		case KTx:
			t, err := d.tx()
			if err != nil {
				return err
			}
			r[f.Name] = t
		case KTxList:
			n, err := d.count(0)
			if err != nil {
				return err
			}
			l := make([]Rec, 0)
			for j := 0; j < n; j++ {
				t, err := d.tx()
				if err != nil {
					return err
				}
				l = append(l, t)
			}
			r[f.Name] = l
		case KZero:
			v, err := d.uint(1)
			if err != nil {
				return err
			}
			if v != 0 {
				return errors.New("refwire: non-zero transaction count in headers message")
			}
		default:
			panic("refwire: unknown kind")
		}
	}
	return nil
}

// Decode parses b per the table and returns the record and the number of bytes
// consumed.
func Decode(fs []F, b []byte, c Ctx) (Rec, int, error) {
	d := &decoder{b: b, c: c}
	r := Rec{}
	if err := d.fields(fs, r); err != nil {
		return nil, d.off, err
	}
	return r, d.off, nil
}

// ---------------------------------------------------------------------------
// comparison restricted to what is on the wire

func eqBytes(a, b []byte) bool { return bytes.Equal(a, b) }

// EqualOnWire compares two records field by field, looking only at the fields
// the layout puts on the wire in context c (information that is not transmitted
// cannot be expected to survive a round trip).  It returns "" when equal,
// otherwise the path of the first difference.
func EqualOnWire(fs []F, a, b Rec, c Ctx) string {
	return eqFields(fs, a, b, c, "")
}

func eqFields(fs []F, a, b Rec, c Ctx, path string) string {
	for i := range fs {
		f := &fs[i]
		if f.If != nil && !f.If(c, a) {
			continue
		}
		p := path + f.Name
		switch f.K {
		case KU8:
			if a.U(f.Name)&0xff != b.U(f.Name)&0xff {
				return p
			}
		case KU16BE:
			if a.U(f.Name)&0xffff != b.U(f.Name)&0xffff {
				return p
			}
		case KU32:
			if a.U(f.Name)&0xffffffff != b.U(f.Name)&0xffffffff {
				return p
			}
		case KU64, KCompact, KBool:
			if a.U(f.Name) != b.U(f.Name) {
				return p
			}
		case KFixed, KVarBytes:
			if !eqBytes(a.B(f.Name), b.B(f.Name)) {
				return p
			}
		case KStruct:
			if d := eqFields(f.Sub, a.R(f.Name), b.R(f.Name), c, p+"."); d != "" {
				return d
			}
		case KList:
			la, lb := a.L(f.Name), b.L(f.Name)
			if len(la) != len(lb) {
				return p + ".count"
			}
			for j := range la {
				if d := eqFields(f.Sub, la[j], lb[j], c, fmt.Sprintf("%s[%d].", p, j)); d != "" {
					return d
				}
			}
		case KFixedList:
			la, lb := a.BL(f.Name), b.BL(f.Name)
			if len(la) != len(lb) {
				return p + ".count"
			}
			for j := range la {
				if !eqBytes(la[j], lb[j]) {
					return fmt.Sprintf("%s[%d]", p, j)
				}
			}
		case KTx:
			if d := eqTx(a.R(f.Name), b.R(f.Name), c, p+"."); d != "" {
				return d
			}
		case KTxList:
			la, lb := a.L(f.Name), b.L(f.Name)
			if len(la) != len(lb) {
				return p + ".count"
			}
			for j := range la {
				if d := eqTx(la[j], lb[j], c, fmt.Sprintf("%s[%d].", p, j)); d != "" {
					return d
				}
			}
		case KZero:
		}
	}
	return ""
}
