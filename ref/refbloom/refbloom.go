// Package refbloom is a deliberately naive reference model of BIP37: MurmurHash3
// (x86_32), bloom filter sizing / insertion / membership, the transaction
// relevance test with update flags, and partial merkle trees (both the
// construction and the verifier-side extraction).  Written from BIP37 and the
// MurmurHash3 description; shares no code with btcd's btcutil/bloom.
package refbloom

import (
	"crypto/sha256"
	"errors"
	"math"
	"math/big"
)

// ---------------------------------------------------------------------------
// MurmurHash3 x86_32

func rotl32(x uint32, r uint) uint32 { return (x << r) | (x >> (32 - r)) }

// Murmur3 is MurmurHash3_x86_32(data, seed).
func Murmur3(seed uint32, data []byte) uint32 {
	const c1, c2 = 0xcc9e2d51, 0x1b873593
	h := seed
	n := len(data)
	i := 0
	for ; i+4 <= n; i += 4 {
		k := uint32(data[i]) | uint32(data[i+1])<<8 | uint32(data[i+2])<<16 | uint32(data[i+3])<<24
		k *= c1
		k = rotl32(k, 15)
		k *= c2
		h ^= k
		h = rotl32(h, 13)
		h = h*5 + 0xe6546b64
	}
	tail := data[i:]
	if len(tail) > 0 {
		var k uint32
		for j := len(tail) - 1; j >= 0; j-- {
			k = k<<8 | uint32(tail[j])
		}
		k *= c1
		k = rotl32(k, 15)
		k *= c2
		h ^= k
	}
	h ^= uint32(n)
	// fmix32
	h ^= h >> 16
	h *= 0x85ebca6b
	h ^= h >> 13
	h *= 0xc2b2ae35
	h ^= h >> 16
	return h
}

// ---------------------------------------------------------------------------
// filter

const (
	MaxFilterBytes = 36000
	MaxHashFuncs   = 50

	UpdateNone         = 0
	UpdateAll          = 1
	UpdateP2PubkeyOnly = 2
)

// Filter is a BIP37 bloom filter.
type Filter struct {
	Data  []byte
	NHash uint32
	Tweak uint32
	Flags byte
}

// Size describes the BIP37 sizing of a filter for n elements at rate p:
//
//	bits  = min(-1/ln(2)^2 * n * ln(p), 36000*8), bytes = bits/8
//	nHash = min(bytes*8/n * ln(2), 50)
//
// Both floors are taken of real numbers; when the real number is so close to an
// integer that float64 evaluation order could decide, Ambiguous is set and the
// caller must not insist on the exact value.
type Size struct {
	Bytes     uint32
	NHash     uint32
	Ambiguous bool
}

func bigf(x float64) *big.Float { return new(big.Float).SetPrec(200).SetFloat64(x) }

func floorAmb(x *big.Float) (uint64, bool) {
	if x.Sign() < 0 {
		return 0, true
	}
	u, _ := x.Uint64()
	fl := new(big.Float).SetPrec(200).SetUint64(u)
	frac, _ := new(big.Float).Sub(x, fl).Float64()
	amb := frac < 1e-6 || frac > 1-1e-6
	return u, amb
}

// Sizing computes the BIP37 parameters (p is clamped to [1e-9, 1] first, as every
// implementation does).
func Sizing(n uint32, p float64) Size {
	if p > 1 {
		p = 1
	}
	if p < 1e-9 {
		p = 1e-9
	}
	// math.Log and Ln2 are float64 approximations: evaluate the products in high
	// precision so that only the (tiny) error of the logarithm itself remains.
	lnp := bigf(math.Log(p))
	ln2 := bigf(math.Ln2)
	bitsF := new(big.Float).SetPrec(200).Mul(bigf(float64(n)), lnp)
	bitsF.Neg(bitsF)
	bitsF.Quo(bitsF, new(big.Float).SetPrec(200).Mul(ln2, ln2))
	bitsN, amb1 := floorAmb(bitsF)
	if bitsN > MaxFilterBytes*8 {
		bitsN = MaxFilterBytes * 8
		amb1 = false
	}
	bytes := uint32(bitsN / 8)
	var s Size
	s.Bytes = bytes
	s.Ambiguous = amb1
	if n == 0 {
		s.Ambiguous = true
		return s
	}
	hf := new(big.Float).SetPrec(200).Quo(bigf(float64(bytes)*8), bigf(float64(n)))
	hf.Mul(hf, ln2)
	k, amb2 := floorAmb(hf)
	if k > MaxHashFuncs {
		k = MaxHashFuncs
		amb2 = false
	}
	s.NHash = uint32(k)
	s.Ambiguous = s.Ambiguous || amb2
	return s
}

// New creates an empty filter with the BIP37 sizing.
func New(n uint32, tweak uint32, p float64, flags byte) *Filter {
	s := Sizing(n, p)
	return &Filter{Data: make([]byte, s.Bytes), NHash: s.NHash, Tweak: tweak, Flags: flags}
}

// BitIndex is the bit set / tested by hash function i for data.
func (f *Filter) BitIndex(i uint32, data []byte) uint32 {
	return Murmur3(i*0xFBA4C795+f.Tweak, data) % (uint32(len(f.Data)) * 8)
}

// Insert sets the nHash bits of data.  (No-op on an empty bit field.)
func (f *Filter) Insert(data []byte) {
	if len(f.Data) == 0 {
		return
	}
	for i := uint32(0); i < f.NHash; i++ {
		b := f.BitIndex(i, data)
		f.Data[b/8] |= 1 << (b % 8)
	}
}

// Contains is the BIP37 membership test on a NON-EMPTY bit field: all nHash bits
// set (vacuously true for nHash = 0).  It must not be called for an empty field.
func (f *Filter) Contains(data []byte) bool {
	if len(f.Data) == 0 {
		panic("refbloom: Contains on an empty bit field is outside the model")
	}
	for i := uint32(0); i < f.NHash; i++ {
		b := f.BitIndex(i, data)
		if f.Data[b/8]&(1<<(b%8)) == 0 {
			return false
		}
	}
	return true
}

// Clone copies the filter.
func (f *Filter) Clone() *Filter {
	g := *f
	g.Data = append([]byte(nil), f.Data...)
	return &g
}

// Serialize is the filterload payload: varint(len) data nHash(LE32) tweak(LE32) flags.
func (f *Filter) Serialize() []byte {
	var out []byte
	n := len(f.Data)
	switch {
	case n < 0xfd:
		out = append(out, byte(n))
	default:
		out = append(out, 0xfd, byte(n), byte(n>>8))
	}
	out = append(out, f.Data...)
	out = append(out, byte(f.NHash), byte(f.NHash>>8), byte(f.NHash>>16), byte(f.NHash>>24))
	out = append(out, byte(f.Tweak), byte(f.Tweak>>8), byte(f.Tweak>>16), byte(f.Tweak>>24))
	out = append(out, f.Flags)
	return out
}

// OutPointBytes is the serialized outpoint: txid (32, internal order) || index LE32.
func OutPointBytes(txid [32]byte, idx uint32) []byte {
	b := make([]byte, 36)
	copy(b, txid[:])
	b[32], b[33], b[34], b[35] = byte(idx), byte(idx>>8), byte(idx>>16), byte(idx>>24)
	return b
}

// ---------------------------------------------------------------------------
// scripts (only what BIP37 needs)

// Pushes returns the data elements pushed by the script (opcodes 0x01..0x4e) and
// whether the whole script parsed.  Empty pushes (OP_0) are not data elements.
func Pushes(script []byte) (data [][]byte, ok bool) {
	i := 0
	for i < len(script) {
		op := script[i]
		i++
		var n int
		switch {
		case op >= 0x01 && op <= 0x4b:
			n = int(op)
		case op == 0x4c:
			if i+1 > len(script) {
				return data, false
			}
			n = int(script[i])
			i++
		case op == 0x4d:
			if i+2 > len(script) {
				return data, false
			}
			n = int(script[i]) | int(script[i+1])<<8
			i += 2
		case op == 0x4e:
			if i+4 > len(script) {
				return data, false
			}
			n = int(script[i]) | int(script[i+1])<<8 | int(script[i+2])<<16 | int(script[i+3])<<24
			i += 4
		default:
			continue
		}
		if n < 0 || i+n > len(script) {
			return data, false
		}
		if n > 0 {
			data = append(data, script[i:i+n])
		}
		i += n
	}
	return data, true
}

func isPubKey(b []byte) bool {
	if len(b) == 33 && (b[0] == 2 || b[0] == 3) {
		return true
	}
	if len(b) == 65 && b[0] == 4 {
		return true
	}
	return false
}

// IsP2PKOrMultisig recognises the two script forms BLOOM_UPDATE_P2PUBKEY_ONLY
// cares about: <pubkey> OP_CHECKSIG and OP_m <pubkey>*n OP_n OP_CHECKMULTISIG
// (1 <= m <= n <= 3 is all this model needs to know about; larger n return false
// and are not used by the check).
func IsP2PKOrMultisig(s []byte) bool {
	// pay to pubkey
	if len(s) == 35 && s[0] == 33 && s[34] == 0xac && isPubKey(s[1:34]) {
		return true
	}
	if len(s) == 67 && s[0] == 65 && s[66] == 0xac && isPubKey(s[1:66]) {
		return true
	}
	// multisig
	if len(s) < 4 || s[len(s)-1] != 0xae {
		return false
	}
	m := int(s[0]) - 0x50
	n := int(s[len(s)-2]) - 0x50
	if m < 1 || n < 1 || m > n || n > 3 {
		return false
	}
	i := 1
	cnt := 0
	for i < len(s)-2 {
		l := int(s[i])
		if l != 33 && l != 65 {
			return false
		}
		if i+1+l > len(s)-2 || !isPubKey(s[i+1:i+1+l]) {
			return false
		}
		i += 1 + l
		cnt++
	}
	return cnt == n
}

// Tx is the part of a transaction BIP37 looks at.
type Tx struct {
	TxID [32]byte
	Outs [][]byte // output scripts
	Ins  []TxIn
}

// TxIn is one input.
type TxIn struct {
	PrevTxID  [32]byte
	PrevIndex uint32
	ScriptSig []byte
}

// IsRelevantAndUpdate is BIP37's filter matching algorithm for a transaction on a
// non-empty bit field.  All scripts of tx must parse completely (the model takes
// no position on unparseable scripts).
func (f *Filter) IsRelevantAndUpdate(tx *Tx) bool {
	found := false
	// 1. the hash of the transaction itself
	if f.Contains(tx.TxID[:]) {
		found = true
	}
	// 2. every data element of every output script; on a match the outpoint may
	// be inserted depending on the update flag
	for i, script := range tx.Outs {
		data, ok := Pushes(script)
		if !ok {
			panic("refbloom: unparseable script is outside the model")
		}
		for _, d := range data {
			if f.Contains(d) {
				found = true
				switch f.Flags & 3 {
				case UpdateAll:
					f.Insert(OutPointBytes(tx.TxID, uint32(i)))
				case UpdateP2PubkeyOnly:
					if IsP2PKOrMultisig(script) {
						f.Insert(OutPointBytes(tx.TxID, uint32(i)))
					}
				}
				break
			}
		}
	}
	if found {
		return true
	}
	// 3./4. every spent outpoint and every data element of every input script
	for _, in := range tx.Ins {
		if f.Contains(OutPointBytes(in.PrevTxID, in.PrevIndex)) {
			return true
		}
		data, ok := Pushes(in.ScriptSig)
		if !ok {
			panic("refbloom: unparseable script is outside the model")
		}
		for _, d := range data {
			if f.Contains(d) {
				return true
			}
		}
	}
	return false
}

// ---------------------------------------------------------------------------
// merkle trees

// DSHA is double SHA-256.
func DSHA(b []byte) [32]byte {
	a := sha256.Sum256(b)
	return sha256.Sum256(a[:])
}

func hashPair(l, r [32]byte) [32]byte {
	var b [64]byte
	copy(b[:32], l[:])
	copy(b[32:], r[:])
	return DSHA(b[:])
}

// Levels computes the complete merkle tree bottom-up: Levels[0] are the txids,
// each next level pairs neighbours (the last one with itself when odd).
func Levels(txids [][32]byte) [][][32]byte {
	lv := [][][32]byte{append([][32]byte(nil), txids...)}
	for len(lv[len(lv)-1]) > 1 {
		cur := lv[len(lv)-1]
		var next [][32]byte
		for i := 0; i < len(cur); i += 2 {
			r := cur[i]
			if i+1 < len(cur) {
				r = cur[i+1]
			}
			next = append(next, hashPair(cur[i], r))
		}
		lv = append(lv, next)
	}
	return lv
}

// MerkleRoot of the txids (n >= 1).
func MerkleRoot(txids [][32]byte) [32]byte {
	lv := Levels(txids)
	return lv[len(lv)-1][0]
}

// BuildPartial is BIP37's construction: depth-first from the root; one flag bit
// per visited node (1 = the node is an ancestor of, or is, a matched txid); a
// hash is emitted for flag-0 nodes and for leaves; children are visited only
// under flag-1 inner nodes.
func BuildPartial(txids [][32]byte, matched []bool) (bits []bool, hashes [][32]byte) {
	lv := Levels(txids)
	var rec func(h, pos int)
	rec = func(h, pos int) {
		anc := false
		lo := pos << uint(h)
		hi := (pos + 1) << uint(h)
		for i := lo; i < hi && i < len(txids); i++ {
			if matched[i] {
				anc = true
			}
		}
		bits = append(bits, anc)
		if h == 0 || !anc {
			hashes = append(hashes, lv[h][pos])
			return
		}
		rec(h-1, 2*pos)
		if 2*pos+1 < len(lv[h-1]) {
			rec(h-1, 2*pos+1)
		}
	}
	rec(len(lv)-1, 0)
	return
}

// PackBits packs flag bits 8 per byte, least significant bit first.
func PackBits(bits []bool) []byte {
	out := make([]byte, (len(bits)+7)/8)
	for i, b := range bits {
		if b {
			out[i/8] |= 1 << uint(i%8)
		}
	}
	return out
}

// Extracted is the verifier's result.
type Extracted struct {
	Root     [32]byte
	Matched  [][32]byte
	Indices  []uint32
	BitsUsed int
	HashUsed int
}

// Extract is BIP37's partial merkle tree parsing (the verifier side): it walks
// the tree shape implied by nTx, consuming flag bits (LSB first within each byte)
// and hashes, and fails unless every hash and every flag byte was needed.
func Extract(nTx uint32, hashes [][32]byte, flags []byte) (*Extracted, error) {
	if nTx == 0 {
		return nil, errors.New("no transactions")
	}
	if uint64(len(hashes)) > uint64(nTx) {
		return nil, errors.New("more hashes than transactions")
	}
	nbits := len(flags) * 8
	if nbits < len(hashes) {
		return nil, errors.New("fewer flag bits than hashes")
	}
	width := func(h uint) uint32 { return uint32((uint64(nTx) + (uint64(1) << h) - 1) >> h) }
	var height uint
	for width(height) > 1 {
		height++
	}
	ex := &Extracted{}
	var bad error
	var rec func(h uint, pos uint32) [32]byte
	rec = func(h uint, pos uint32) [32]byte {
		if bad != nil {
			return [32]byte{}
		}
		if ex.BitsUsed >= nbits {
			bad = errors.New("ran out of flag bits")
			return [32]byte{}
		}
		flag := flags[ex.BitsUsed/8]&(1<<uint(ex.BitsUsed%8)) != 0
		ex.BitsUsed++
		if h == 0 || !flag {
			if ex.HashUsed >= len(hashes) {
				bad = errors.New("ran out of hashes")
				return [32]byte{}
			}
			v := hashes[ex.HashUsed]
			ex.HashUsed++
			if h == 0 && flag {
				ex.Matched = append(ex.Matched, v)
				ex.Indices = append(ex.Indices, pos)
			}
			return v
		}
		left := rec(h-1, 2*pos)
		right := left
		if 2*pos+1 < width(h-1) {
			right = rec(h-1, 2*pos+1)
			if bad == nil && right == left {
				bad = errors.New("identical left and right subtree hashes")
			}
		}
		return hashPair(left, right)
	}
	ex.Root = rec(height, 0)
	if bad != nil {
		return nil, bad
	}
	if (ex.BitsUsed+7)/8 != len(flags) {
		return nil, errors.New("not all flag bytes consumed")
	}
	if ex.HashUsed != len(hashes) {
		return nil, errors.New("not all hashes consumed")
	}
	return ex, nil
}
