package vtest

import (
	"testing"

	"verif/engine/vsched"
	"verif/engine/vsync"
)

// lost update: two threads do read-modify-write with the lock released in between.
func TestLostUpdate(t *testing.T) {
	for bound := 0; bound <= 2; bound++ {
		var final int
		e := &vsched.Explorer{Bound: bound, MaxPoints: 200,
			Body: func() {
				var mu vsync.Mutex
				x := 0
				var wg vsync.WaitGroup
				for i := 0; i < 2; i++ {
					wg.Add(1)
					vsched.Go("w", func() {
						defer wg.Done()
						mu.Lock()
						v := x
						mu.Unlock()
						mu.Lock()
						x = v + 1
						mu.Unlock()
					})
				}
				wg.Wait()
				final = x
			},
			After: func(x *vsched.Exec) (string, string) {
				if x.Deadlock || x.Panic != "" {
					return "bad", "deadlock/panic " + x.Panic
				}
				if final != 2 {
					return "lost", "lost update"
				}
				return "ok", ""
			}}
		e.Run()
		t.Logf("bound %d: execs=%d outcomes=%v", bound, e.Stats.Executions, e.Stats.Outcomes)
		if bound == 0 && len(e.Violations) != 0 {
			t.Fatalf("bound 0 must not find the lost update")
		}
		if bound >= 1 && len(e.Violations) == 0 {
			t.Fatalf("bound %d must find the lost update", bound)
		}
		if bound >= 1 {
			// replay twice
			v := e.Violations[0]
			for k := 0; k < 2; k++ {
				x := vsched.RunOnce(v.Choices, 200, e.Body)
				if _, w := e.After(x); w == "" {
					t.Fatalf("replay did not reproduce")
				}
			}
		}
	}
}

// lock-order deadlock
func TestDeadlock(t *testing.T) {
	e := &vsched.Explorer{Bound: 1, MaxPoints: 200,
		Body: func() {
			var a, b vsync.Mutex
			var wg vsync.WaitGroup
			wg.Add(2)
			vsched.Go("ab", func() { defer wg.Done(); a.Lock(); b.Lock(); b.Unlock(); a.Unlock() })
			vsched.Go("ba", func() { defer wg.Done(); b.Lock(); a.Lock(); a.Unlock(); b.Unlock() })
			wg.Wait()
		},
		After: func(x *vsched.Exec) (string, string) {
			if x.Deadlock {
				return "deadlock", "deadlock"
			}
			return "ok", ""
		}}
	e.Run()
	t.Logf("execs=%d outcomes=%v", e.Stats.Executions, e.Stats.Outcomes)
	if e.Stats.Outcomes["deadlock"] == 0 {
		t.Fatal("deadlock not found")
	}
}

// recursive RLock with a writer in between deadlocks (writer preference)
func TestRecursiveRLock(t *testing.T) {
	e := &vsched.Explorer{Bound: 2, MaxPoints: 200,
		Body: func() {
			var m vsync.RWMutex
			var wg vsync.WaitGroup
			wg.Add(2)
			vsched.Go("r", func() { defer wg.Done(); m.RLock(); m.RLock(); m.RUnlock(); m.RUnlock() })
			vsched.Go("w", func() { defer wg.Done(); m.Lock(); m.Unlock() })
			wg.Wait()
		},
		After: func(x *vsched.Exec) (string, string) {
			if x.Deadlock {
				return "deadlock", "deadlock"
			}
			return "ok", ""
		}}
	e.Run()
	t.Logf("execs=%d outcomes=%v", e.Stats.Executions, e.Stats.Outcomes)
	if e.Stats.Outcomes["deadlock"] == 0 {
		t.Fatal("recursive rlock deadlock not found")
	}
}
