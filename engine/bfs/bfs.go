// Package bfs is the explicit-state explorer over *real* objects.
//
// Real btcd objects (a BlockChain on ffldb, a TxPool, a Peer) cannot be cloned, so
// a state is represented by the shortest event history that reaches it and a
// successor is computed by building a fresh real object, replaying that history
// and applying one more event.  States are deduplicated on a canonical string
// supplied by the model (sorted, property-relevant, *future-determining*
// observation).  The invariant is evaluated after every transition.
package bfs

import (
	"runtime"
	"sync"
)

// Model describes one exploration.
type Model[S any] struct {
	// New builds a fresh real system in its initial state.
	New func() S
	// Enabled lists the events that may be applied after hist (in canonical,
	// simplest-first order).
	Enabled func(s S, hist []int) []int
	// Apply applies one event to the real system.
	Apply func(s S, ev int)
	// Canon returns the canonical state key (must determine all futures).
	Canon func(s S) string
	// Check evaluates the oracle after the last event of hist was applied; a
	// non-empty string is a violation description.
	Check func(s S, hist []int) string
	// Free releases the system.
	Free func(s S)
	// MaxDepth bounds the history length (0 = unbounded).
	MaxDepth int
	// MaxStates caps the number of distinct states (0 = no cap).
	MaxStates int
	// Stop is polled between levels / expansions (time box).
	Stop func() bool
	// ExpandViolating keeps exploring beyond a state whose Check failed
	// (default: such states are reported and pruned).
	ExpandViolating bool
	// Workers is the parallelism (default GOMAXPROCS).
	Workers int
}

// Result reports what was covered.
type Result struct {
	States      int
	Transitions int
	MaxDepth    int
	Complete    bool // the frontier emptied within MaxDepth without hitting a cap
	DepthCapped bool // some state at MaxDepth still had enabled events
	Violations  []Violation
	SampleHists [][]int
}

// Violation is one failing history.
type Violation struct {
	Hist []int
	What string
}

// Run explores breadth-first.
func Run[S any](m Model[S]) Result {
	workers := m.Workers
	if workers <= 0 {
		workers = runtime.GOMAXPROCS(0)
	}
	var res Result
	seen := map[string]bool{}
	var mu sync.Mutex

	build := func(hist []int) S {
		s := m.New()
		for _, ev := range hist {
			m.Apply(s, ev)
		}
		return s
	}

	s0 := m.New()
	seen[m.Canon(s0)] = true
	if w := m.Check(s0, nil); w != "" {
		res.Violations = append(res.Violations, Violation{nil, w})
	}
	m.Free(s0)
	res.States = 1
	frontier := [][]int{{}}
	capped := false
	for depth := 0; len(frontier) > 0; depth++ {
		if m.MaxDepth > 0 && depth >= m.MaxDepth {
			// frontier states are not expanded: check whether that loses anything
			for _, h := range frontier {
				s := build(h)
				if len(m.Enabled(s, h)) > 0 {
					res.DepthCapped = true
				}
				m.Free(s)
				if res.DepthCapped {
					break
				}
			}
			break
		}
		if m.Stop != nil && m.Stop() {
			capped = true
			break
		}
		var next [][]int
		var wg sync.WaitGroup
		idx := 0
		var imu sync.Mutex
		for w := 0; w < workers; w++ {
			wg.Add(1)
			go func() {
				defer wg.Done()
				for {
					imu.Lock()
					i := idx
					idx++
					imu.Unlock()
					if i >= len(frontier) {
						return
					}
					if m.Stop != nil && m.Stop() {
						mu.Lock()
						capped = true
						mu.Unlock()
						return
					}
					h := frontier[i]
					s := build(h)
					evs := m.Enabled(s, h)
					for k, ev := range evs {
						if k > 0 {
							s = build(h)
						}
						m.Apply(s, ev)
						nh := append(append([]int(nil), h...), ev)
						c := m.Canon(s) // before Check: the oracle's queries may perturb caches
						w := m.Check(s, nh)
						m.Free(s)
						mu.Lock()
						res.Transitions++
						if w != "" && len(res.Violations) < 50 {
							res.Violations = append(res.Violations, Violation{nh, w})
						}
						if w != "" && !m.ExpandViolating {
							// a violating state is reported once, at the first event that
							// breaks the property, and not expanded further
							seen[c] = true
							mu.Unlock()
							continue
						}
						if !seen[c] && (m.MaxStates == 0 || res.States < m.MaxStates) {
							seen[c] = true
							res.States++
							next = append(next, nh)
							if len(res.SampleHists) < 6 && len(nh) >= 3 {
								res.SampleHists = append(res.SampleHists, nh)
							}
						} else if !seen[c] {
							capped = true
						}
						mu.Unlock()
					}
					if len(evs) == 0 {
						m.Free(s)
					}
				}
			}()
		}
		wg.Wait()
		if len(next) > 0 {
			res.MaxDepth = depth + 1
		}
		frontier = next
		if capped {
			break
		}
	}
	res.Complete = !capped && !res.DepthCapped
	return res
}
