// Package ev is the evidence / verdict layer shared by every check binary.
//
// A check binary does:
//
//	r := ev.Start("C13")            // parses argv: <tier>|replay <path>, VERIF_SEED, VERIF_TIER
//	... enumerate; r.Eval(n); r.State(n); r.Trans(n); r.Nontrivial(key); r.Sample(x)
//	... r.Violation(key, what, replayObject) for every failing case
//	r.Finish(exhaustive)            // writes /verif/evidence/<id>.json, prints verdict lines, exits
//
// Exit codes: 0 = property held on everything explored (known findings are
// printed as KNOWN-FINDING lines), 1 = at least one unlisted violation
// (VIOLATION property=<id> replay=<path> per violation), 2 = the machinery is
// broken (oracle disagrees with shipped vectors, replay divergence, ...): never
// disguised as a pass or as a violation.
package ev

import (
	"crypto/sha256"
	"encoding/hex"
	"encoding/json"
	"fmt"
	"os"
	"path/filepath"
	"regexp"
	"sort"
	"strconv"
	"strings"
	"sync"
	"sync/atomic"
	"time"
)

// Root is the /verif directory (overridable for tests).
var Root = func() string {
	if v := os.Getenv("VERIF_ROOT"); v != "" {
		return v
	}
	return "/verif"
}()

type viol struct {
	Key    string      `json:"key"`
	What   string      `json:"what"`
	Replay interface{} `json:"replay"`
	path   string
	known  bool
}

// Run accumulates coverage for one execution of one check.
type Run struct {
	ID    string
	Tier  string
	Seed  int64
	start time.Time

	evals, states, trans, traces int64

	mu        sync.Mutex
	distinct  map[[16]byte]struct{}
	samples   []interface{}
	maxSample int
	extra     map[string]interface{}
	counters  map[string]*int64
	assume    []string
	viols     []viol
	violKeys  map[string]bool
	rule      string
	caps      []string
	deadline  time.Time
	// ReplayPath is non-empty when the binary was invoked as "replay <path>".
	ReplayPath string
}

// Start parses the command line (tier or "replay <path>") and the environment.
func Start(id string) *Run {
	r := &Run{ID: id, Tier: "quick", start: time.Now(), distinct: map[[16]byte]struct{}{},
		maxSample: 8, extra: map[string]interface{}{}, counters: map[string]*int64{}, violKeys: map[string]bool{}}
	if t := os.Getenv("VERIF_TIER"); t == "quick" || t == "thorough" {
		r.Tier = t
	}
	args := os.Args[1:]
	for i := 0; i < len(args); i++ {
		switch args[i] {
		case "quick", "thorough":
			r.Tier = args[i]
		case "replay":
			if i+1 < len(args) {
				r.ReplayPath = args[i+1]
				i++
			}
		}
	}
	if s := os.Getenv("VERIF_SEED"); s != "" {
		if v, err := strconv.ParseInt(s, 10, 64); err == nil {
			r.Seed = v
		}
	}
	return r
}

// Thorough reports whether the thorough tier was requested.
func (r *Run) Thorough() bool { return r.Tier == "thorough" }

// Pick returns q for the quick tier and t for the thorough tier.
func (r *Run) Pick(q, t int) int {
	if r.Thorough() {
		return t
	}
	return q
}

// SetBudget installs an internal time box. Expired() becomes true afterwards;
// the check must then stop enumerating, call Cap(...) and Finish(false).
func (r *Run) SetBudget(d time.Duration) { r.deadline = r.start.Add(d) }

// Expired reports whether the internal time box was hit.
func (r *Run) Expired() bool { return !r.deadline.IsZero() && time.Now().After(r.deadline) }

// Eval counts n executed cases (inputs tried / executions run).
func (r *Run) Eval(n int) { atomic.AddInt64(&r.evals, int64(n)) }

// State counts n distinct model/implementation states visited.
func (r *Run) State(n int) { atomic.AddInt64(&r.states, int64(n)) }

// Trans counts n transitions (operations applied to the implementation).
func (r *Run) Trans(n int) { atomic.AddInt64(&r.trans, int64(n)) }

// Trace counts n complete traces (histories/schedules/inputs) that were executed
// against the real implementation and compared with the reference.
func (r *Run) Trace(n int) { atomic.AddInt64(&r.traces, int64(n)) }

// Add increments a named extra counter that ends up in coverage.
func (r *Run) Add(name string, n int64) {
	r.mu.Lock()
	p, ok := r.counters[name]
	if !ok {
		p = new(int64)
		r.counters[name] = p
	}
	r.mu.Unlock()
	atomic.AddInt64(p, n)
}

// Nontrivial records one case that is non-trivial by the check's rule; distinct
// keys are counted (measured, never a constant).
func (r *Run) Nontrivial(key string) {
	h := sha256.Sum256([]byte(key))
	var k [16]byte
	copy(k[:], h[:16])
	r.mu.Lock()
	r.distinct[k] = struct{}{}
	r.mu.Unlock()
}

// NontrivialBytes is Nontrivial for byte keys.
func (r *Run) NontrivialBytes(key []byte) {
	h := sha256.Sum256(key)
	var k [16]byte
	copy(k[:], h[:16])
	r.mu.Lock()
	r.distinct[k] = struct{}{}
	r.mu.Unlock()
}

// Sample keeps the first few actual cases for the evidence file.
func (r *Run) Sample(v interface{}) {
	r.mu.Lock()
	if len(r.samples) < r.maxSample {
		r.samples = append(r.samples, v)
	}
	r.mu.Unlock()
}

// WantSample reports whether more samples are still being collected.
func (r *Run) WantSample() bool {
	r.mu.Lock()
	defer r.mu.Unlock()
	return len(r.samples) < r.maxSample
}

// Set stores an extra coverage key (bounds, alphabets, sub-check counts ...).
func (r *Run) Set(key string, v interface{}) {
	r.mu.Lock()
	r.extra[key] = v
	r.mu.Unlock()
}

// Rule sets the description of how cases are enumerated and what is non-trivial.
func (r *Run) Rule(s string) { r.rule = s }

// Assume records an assumption / trusted-base item.
func (r *Run) Assume(s string) {
	r.mu.Lock()
	r.assume = append(r.assume, s)
	r.mu.Unlock()
}

// Cap records that a cap (time box, branch limit) was hit and what was fully
// covered below it. A run with caps must Finish(false).
func (r *Run) Cap(s string) {
	r.mu.Lock()
	r.caps = append(r.caps, s)
	r.mu.Unlock()
}

// Violation records a failing case. key identifies the concrete failing
// input / history / call site (stable across runs; used for the known-findings
// match); what is a one-line human description; replay is a self-contained JSON
// value from which the case can be re-executed.
func (r *Run) Violation(key, what string, replay interface{}) {
	r.mu.Lock()
	defer r.mu.Unlock()
	if r.violKeys[key] {
		return
	}
	r.violKeys[key] = true
	if len(r.viols) < 200 {
		r.viols = append(r.viols, viol{Key: key, What: what, Replay: replay})
	}
}

// Violations returns the number of distinct violations recorded so far.
func (r *Run) Violations() int {
	r.mu.Lock()
	defer r.mu.Unlock()
	return len(r.violKeys)
}

// Broken aborts with exit 2: the machinery (oracle, harness) is at fault.
func (r *Run) Broken(format string, a ...interface{}) {
	fmt.Printf("BROKEN-CHECK property=%s %s\n", r.ID, fmt.Sprintf(format, a...))
	os.Exit(2)
}

type knownFile struct {
	Findings []struct {
		Property string `json:"property"`
		Key      string `json:"key"`   // exact key, or
		Match    string `json:"match"` // regexp on the key
		What     string `json:"what"`
	} `json:"findings"`
	Fixed []string `json:"fixed"`
}

func loadKnown() knownFile {
	var k knownFile
	b, err := os.ReadFile(filepath.Join(Root, "known_findings.json"))
	if err != nil {
		return k
	}
	if err := json.Unmarshal(b, &k); err != nil {
		fmt.Printf("BROKEN-CHECK known_findings.json unreadable: %v\n", err)
		os.Exit(2)
	}
	return k
}

// Finish writes the evidence file, prints the verdict lines and exits.
func (r *Run) Finish(exhaustive bool) {
	known := loadKnown()
	if len(r.caps) > 0 {
		exhaustive = false
	}
	nViol, nKnown := 0, 0
	var lines []string
	sort.Slice(r.viols, func(i, j int) bool { return r.viols[i].Key < r.viols[j].Key })
	for i := range r.viols {
		v := &r.viols[i]
		for _, k := range known.Findings {
			if k.Property != r.ID {
				continue
			}
			if (k.Key != "" && k.Key == v.Key) || (k.Match != "" && regexp.MustCompile(k.Match).MatchString(v.Key)) {
				v.known = true
				lines = append(lines, fmt.Sprintf("KNOWN-FINDING: property=%s %s [key=%s]", r.ID, k.What, v.Key))
				if os.Getenv("VERIF_SHOW_KNOWN") != "" {
					rb, _ := json.Marshal(v.Replay)
					fmt.Printf("  known-instance key=%s what=%s replay=%s\n", v.Key, oneLine(v.What), rb)
				}
				break
			}
		}
		if v.known {
			nKnown++
			continue
		}
		nViol++
		h := sha256.Sum256([]byte(v.Key))
		dir := filepath.Join(Root, "replays", r.ID)
		if d := os.Getenv("VERIF_EVIDENCE_DIR"); d != "" {
			dir = filepath.Join(d, "replays", r.ID)
		}
		os.MkdirAll(dir, 0o755)
		v.path = filepath.Join(dir, hex.EncodeToString(h[:6])+".json")
		b, _ := json.MarshalIndent(map[string]interface{}{"property": r.ID, "key": v.Key, "what": v.What, "replay": v.Replay}, "", " ")
		os.WriteFile(v.path, b, 0o644)
		lines = append(lines, fmt.Sprintf("VIOLATION property=%s replay=%s", r.ID, v.path))
		lines = append(lines, fmt.Sprintf("  detail: %s", oneLine(v.What)))
	}
	// de-duplicate KNOWN-FINDING lines per finding text
	cov := map[string]interface{}{}
	for k, v := range r.extra {
		cov[k] = v
	}
	for k, p := range r.counters {
		cov[k] = atomic.LoadInt64(p)
	}
	ev := atomic.LoadInt64(&r.evals)
	st := atomic.LoadInt64(&r.states)
	tr := atomic.LoadInt64(&r.trans)
	tc := atomic.LoadInt64(&r.traces)
	if st == 0 {
		st = int64(len(r.distinct))
	}
	if tr == 0 {
		tr = ev
	}
	if ev == 0 {
		ev = tr
	}
	cov["evaluations"] = ev
	cov["distinct_nontrivial"] = len(r.distinct)
	cov["rule"] = r.rule
	cov["states"] = st
	cov["transitions"] = tr
	cov["traces_validated_against_impl"] = tc
	cov["exhaustive"] = exhaustive
	if len(r.samples) == 0 {
		r.samples = []interface{}{"(no sample recorded)"}
	}
	cov["samples"] = r.samples
	if len(r.caps) > 0 {
		cov["caps_hit"] = r.caps
	}
	if nKnown > 0 {
		cov["known_findings_reproduced"] = nKnown
	}
	out := map[string]interface{}{
		"property_id": r.ID,
		"tier":        r.Tier,
		"seed":        r.Seed,
		"level":       "model_checking",
		"coverage":    cov,
		"assumptions": append([]string{}, r.assume...),
		"wall_s":      time.Since(r.start).Seconds(),
		"violations":  nViol,
	}
	b, _ := json.MarshalIndent(out, "", " ")
	evDir := filepath.Join(Root, "evidence")
	if d := os.Getenv("VERIF_EVIDENCE_DIR"); d != "" {
		evDir = d
	}
	os.MkdirAll(evDir, 0o755)
	if r.ReplayPath == "" {
		if err := os.WriteFile(filepath.Join(evDir, r.ID+".json"), b, 0o644); err != nil {
			fmt.Printf("BROKEN-CHECK cannot write evidence: %v\n", err)
			os.Exit(2)
		}
	}
	for _, l := range lines {
		fmt.Println(l)
	}
	fmt.Printf("SUMMARY property=%s tier=%s evaluations=%d states=%d transitions=%d traces=%d distinct_nontrivial=%d exhaustive=%v violations=%d known=%d wall=%.1fs\n",
		r.ID, r.Tier, ev, st, tr, tc, len(r.distinct), exhaustive, nViol, nKnown, time.Since(r.start).Seconds())
	if nViol > 0 {
		os.Exit(1)
	}
	os.Exit(0)
}

func oneLine(s string) string {
	s = strings.ReplaceAll(s, "\n", " | ")
	if len(s) > 600 {
		s = s[:600] + "..."
	}
	return s
}

// LoadReplay reads the "replay" member of a replay file into v.
func (r *Run) LoadReplay(v interface{}) {
	b, err := os.ReadFile(r.ReplayPath)
	if err != nil {
		r.Broken("cannot read replay file: %v", err)
	}
	var w struct {
		Replay json.RawMessage `json:"replay"`
	}
	if err := json.Unmarshal(b, &w); err != nil {
		r.Broken("bad replay file: %v", err)
	}
	if err := json.Unmarshal(w.Replay, v); err != nil {
		r.Broken("bad replay payload: %v", err)
	}
}

// Par runs f(i) for i in [0,n) on up to GOMAXPROCS workers and waits.
func Par(n int, workers int, f func(i int)) {
	if workers < 1 {
		workers = 1
	}
	var next int64 = -1
	var wg sync.WaitGroup
	for w := 0; w < workers; w++ {
		wg.Add(1)
		go func() {
			defer wg.Done()
			for {
				i := int(atomic.AddInt64(&next, 1))
				if i >= n {
					return
				}
				f(i)
			}
		}()
	}
	wg.Wait()
}

// Hex is a helper for samples.
func Hex(b []byte) string { return hex.EncodeToString(b) }
