// Command rewrite produces a `go build -overlay` JSON that puts real btcd source
// files under the vsched cooperative scheduler without editing /repo:
//
//	-sync  dir[,dir...]   every non-test .go file of these package directories:
//	                      import "sync" -> sync "verif/engine/vsync"
//	-full  file[,file...] additionally make goroutines, channel operations,
//	                      selects, close() and timers visible to the scheduler:
//	                        go f()            -> vsched.Go("f", func() { f() })
//	                        ch <- v           -> { tok := vsched.BeforeSend(ch); ch <- v; vsched.AfterSend(tok) }
//	                        stmt with <-ch    -> { vsched.BeforeRecv(ch); stmt }
//	                        close(ch)         -> { vsched.Closed(ch); close(ch) }
//	                        select {...}      -> switch vsched.Select(hasDefault, R(a), S(b)...) {case 0: <comm>; body ...}
//	                        time.NewTicker / AfterFunc / After / NewTimer -> vtime.*
//	-out   dir            where rewritten copies are written
//	-overlay file         overlay JSON to write
//
// The overlay is regenerated from the *current* working tree on every run, so a
// mutated source file is what gets explored.  Constructs the rewriter does not
// understand are a hard error (exit 2), never silently skipped.
package main

import (
	"bytes"
	"encoding/json"
	"flag"
	"fmt"
	"go/ast"
	"go/format"
	"go/parser"
	"go/token"
	"os"
	"path/filepath"
	"strconv"
	"strings"
)

func die(f string, a ...interface{}) {
	fmt.Fprintf(os.Stderr, "rewrite: "+f+"\n", a...)
	os.Exit(2)
}

func main() {
	syncDirs := flag.String("sync", "", "")
	fullFiles := flag.String("full", "", "")
	out := flag.String("out", "", "")
	overlay := flag.String("overlay", "", "")
	flag.Parse()
	if *out == "" || *overlay == "" {
		die("need -out and -overlay")
	}
	os.MkdirAll(*out, 0o755)
	full := map[string]bool{}
	for _, f := range strings.Split(*fullFiles, ",") {
		if f != "" {
			full[filepath.Clean(f)] = true
		}
	}
	files := map[string]bool{}
	for _, d := range strings.Split(*syncDirs, ",") {
		if d == "" {
			continue
		}
		ents, err := os.ReadDir(d)
		if err != nil {
			die("%v", err)
		}
		for _, e := range ents {
			n := e.Name()
			if strings.HasSuffix(n, ".go") && !strings.HasSuffix(n, "_test.go") {
				files[filepath.Join(d, n)] = true
			}
		}
	}
	for f := range full {
		files[f] = true
	}
	replace := map[string]string{}
	for f := range files {
		src, err := os.ReadFile(f)
		if err != nil {
			die("%v", err)
		}
		res, changed := rewriteFile(f, src, full[f])
		if !changed {
			continue
		}
		dst := filepath.Join(*out, strings.ReplaceAll(strings.TrimPrefix(f, "/"), "/", "__"))
		if err := os.WriteFile(dst, res, 0o644); err != nil {
			die("%v", err)
		}
		replace[f] = dst
	}
	b, _ := json.MarshalIndent(map[string]interface{}{"Replace": replace}, "", " ")
	if err := os.WriteFile(*overlay, b, 0o644); err != nil {
		die("%v", err)
	}
}

type rw struct {
	fset     *token.FileSet
	file     string
	needVS   bool // vsched import
	needVT   bool // vtime import
	timeName string
	counter  int
	nTmp     int
}

func (r *rw) pos(n ast.Node) string { return r.fset.Position(n.Pos()).String() }

func rewriteFile(name string, src []byte, full bool) ([]byte, bool) {
	fset := token.NewFileSet()
	f, err := parser.ParseFile(fset, name, src, parser.ParseComments)
	if err != nil {
		die("%v", err)
	}
	r := &rw{fset: fset, file: name}
	changed := false
	for _, imp := range f.Imports {
		p, _ := strconv.Unquote(imp.Path.Value)
		switch p {
		case "sync":
			if imp.Name != nil && imp.Name.Name != "sync" {
				die("%s: renamed sync import unsupported", name)
			}
			imp.Path.Value = strconv.Quote("verif/engine/vsync")
			imp.Name = ast.NewIdent("sync")
			changed = true
		case "sync/atomic":
			if full {
				if imp.Name != nil && imp.Name.Name != "atomic" {
					die("%s: renamed sync/atomic import unsupported", name)
				}
				imp.Path.Value = strconv.Quote("verif/engine/vatomic")
				imp.Name = ast.NewIdent("atomic")
				changed = true
			}
		case "time":
			r.timeName = "time"
			if imp.Name != nil {
				r.timeName = imp.Name.Name
			}
		}
	}
	if full {
		for _, d := range f.Decls {
			if fd, ok := d.(*ast.FuncDecl); ok && fd.Body != nil {
				r.block(fd.Body)
			}
			// package-level var initialisers with func literals
			if gd, ok := d.(*ast.GenDecl); ok {
				ast.Inspect(gd, func(n ast.Node) bool {
					if fl, ok := n.(*ast.FuncLit); ok {
						r.block(fl.Body)
						return false
					}
					return true
				})
			}
		}
		changed = true
		if r.needVS {
			addImport(f, "verif/engine/vsched", "vsched")
		}
		if r.needVT {
			addImport(f, "verif/engine/vtime", "vtime")
		}
	}
	if !changed {
		return nil, false
	}
	var buf bytes.Buffer
	// drop comments' position coupling problems: print without comment map issues
	f.Comments = nil
	if err := format.Node(&buf, fset, f); err != nil {
		die("%s: print: %v", name, err)
	}
	out := buf.Bytes()
	// the "time" import may have become unused? it stays used (time.Duration etc.)
	return out, true
}

func addImport(f *ast.File, path, name string) {
	spec := &ast.ImportSpec{Name: ast.NewIdent(name), Path: &ast.BasicLit{Kind: token.STRING, Value: strconv.Quote(path)}}
	for _, d := range f.Decls {
		if gd, ok := d.(*ast.GenDecl); ok && gd.Tok == token.IMPORT {
			gd.Specs = append(gd.Specs, spec)
			gd.Lparen = 1 // force parenthesised form
			f.Imports = append(f.Imports, spec)
			return
		}
	}
	gd := &ast.GenDecl{Tok: token.IMPORT, Specs: []ast.Spec{spec}}
	f.Decls = append([]ast.Decl{gd}, f.Decls...)
}

func sel(pkg, name string) ast.Expr {
	return &ast.SelectorExpr{X: ast.NewIdent(pkg), Sel: ast.NewIdent(name)}
}

func call(fun ast.Expr, args ...ast.Expr) *ast.CallExpr { return &ast.CallExpr{Fun: fun, Args: args} }

func exprStmt(e ast.Expr) ast.Stmt { return &ast.ExprStmt{X: e} }

// block rewrites the statements of a block in place.
func (r *rw) block(b *ast.BlockStmt) {
	if b == nil {
		return
	}
	b.List = r.stmts(b.List)
}

func (r *rw) stmts(list []ast.Stmt) []ast.Stmt {
	var out []ast.Stmt
	for _, s := range list {
		out = append(out, r.stmt(s)...)
	}
	return out
}

// recvChans collects the channel expressions of receive operations that are
// evaluated as part of the given nodes (not descending into func literals).
func (r *rw) recvChans(nodes ...ast.Node) []ast.Expr {
	var chans []ast.Expr
	for _, n := range nodes {
		if n == nil {
			continue
		}
		ast.Inspect(n, func(x ast.Node) bool {
			switch v := x.(type) {
			case *ast.FuncLit:
				return false
			case *ast.UnaryExpr:
				if v.Op == token.ARROW {
					chans = append(chans, v.X)
				}
			}
			return true
		})
	}
	return chans
}

// exprs rewrites nested func literals and timer calls inside expressions.
func (r *rw) exprs(n ast.Node) {
	if n == nil {
		return
	}
	ast.Inspect(n, func(x ast.Node) bool {
		switch v := x.(type) {
		case *ast.FuncLit:
			r.block(v.Body)
			return false
		case *ast.CallExpr:
			if se, ok := v.Fun.(*ast.SelectorExpr); ok {
				if id, ok := se.X.(*ast.Ident); ok && r.timeName != "" && id.Name == r.timeName && id.Obj == nil {
					switch se.Sel.Name {
					case "NewTicker", "AfterFunc", "After", "NewTimer", "Tick", "Sleep":
						v.Fun = sel("vtime", se.Sel.Name)
						r.needVT = true
					}
				}
			}
		}
		return true
	})
}

func (r *rw) hook(name string, ch ast.Expr) ast.Stmt {
	r.needVS = true
	return exprStmt(call(sel("vsched", name), ch))
}

func (r *rw) stmt(s ast.Stmt) []ast.Stmt {
	switch v := s.(type) {
	case nil:
		return nil
	case *ast.BlockStmt:
		r.block(v)
		return []ast.Stmt{v}
	case *ast.LabeledStmt:
		inner := r.stmt(v.Stmt)
		if len(inner) == 1 {
			v.Stmt = inner[0]
		} else {
			// hooks must stay inside the label's statement when it is a loop/select;
			// for plain statements wrap in a block
			v.Stmt = &ast.BlockStmt{List: inner}
		}
		return []ast.Stmt{v}
	case *ast.GoStmt:
		r.exprs(v.Call)
		if len(v.Call.Args) != 0 {
			die("%s: go statement with arguments is not supported", r.pos(v))
		}
		r.needVS = true
		name := "goroutine"
		switch f := v.Call.Fun.(type) {
		case *ast.SelectorExpr:
			name = f.Sel.Name
		case *ast.Ident:
			name = f.Name
		case *ast.FuncLit:
			r.counter++
			name = fmt.Sprintf("func%d", r.counter)
		}
		lit := &ast.FuncLit{Type: &ast.FuncType{Params: &ast.FieldList{}}, Body: &ast.BlockStmt{List: []ast.Stmt{exprStmt(v.Call)}}}
		return []ast.Stmt{exprStmt(call(sel("vsched", "Go"), &ast.BasicLit{Kind: token.STRING, Value: strconv.Quote(name)}, lit))}
	case *ast.SendStmt:
		r.exprs(v.Value)
		pre := r.recvHooks(v.Value)
		// tok := vsched.BeforeSend(ch); ch <- v; vsched.AfterSend(tok)
		// (AfterSend parks the sender again after a rendezvous on an
		// unbuffered channel; a no-op otherwise)
		r.needVS = true
		r.nTmp++
		// the value is evaluated before the send can block (it may be a call
		// with scheduling points of its own)
		hasCall := false
		ast.Inspect(v.Value, func(n ast.Node) bool {
			if _, ok := n.(*ast.CallExpr); ok {
				hasCall = true
			}
			return !hasCall
		})
		if hasCall {
			val := fmt.Sprintf("vschedSendVal%d", r.nTmp)
			pre = append(pre, &ast.AssignStmt{Lhs: []ast.Expr{ast.NewIdent(val)}, Tok: token.DEFINE, Rhs: []ast.Expr{v.Value}})
			v.Value = ast.NewIdent(val)
		}
		tok := fmt.Sprintf("vschedSendTok%d", r.nTmp)
		pre = append(pre, &ast.AssignStmt{Lhs: []ast.Expr{ast.NewIdent(tok)}, Tok: token.DEFINE,
			Rhs: []ast.Expr{call(sel("vsched", "BeforeSend"), v.Chan)}})
		return append(pre, v, exprStmt(call(sel("vsched", "AfterSend"), ast.NewIdent(tok))))
	case *ast.ExprStmt:
		r.exprs(v.X)
		// close(ch)
		if c, ok := v.X.(*ast.CallExpr); ok {
			if id, ok := c.Fun.(*ast.Ident); ok && id.Name == "close" && len(c.Args) == 1 {
				return []ast.Stmt{r.hook("Closed", c.Args[0]), v}
			}
		}
		return append(r.recvHooks(v.X), v)
	case *ast.AssignStmt:
		for _, e := range v.Rhs {
			r.exprs(e)
		}
		var nodes []ast.Node
		for _, e := range v.Rhs {
			nodes = append(nodes, e)
		}
		return append(r.recvHooks(nodes...), v)
	case *ast.DeclStmt:
		r.exprs(v.Decl)
		return append(r.recvHooks(v.Decl), v)
	case *ast.ReturnStmt:
		var nodes []ast.Node
		for _, e := range v.Results {
			r.exprs(e)
			nodes = append(nodes, e)
		}
		return append(r.recvHooks(nodes...), v)
	case *ast.DeferStmt:
		r.exprs(v.Call)
		if id, ok := v.Call.Fun.(*ast.Ident); ok && id.Name == "close" && len(v.Call.Args) == 1 {
			// defer close(ch) -> defer func() { vsched.Closed(ch); close(ch) }()
			r.needVS = true
			body := &ast.BlockStmt{List: []ast.Stmt{r.hook("Closed", v.Call.Args[0]), exprStmt(v.Call)}}
			v.Call = call(&ast.FuncLit{Type: &ast.FuncType{Params: &ast.FieldList{}}, Body: body})
		}
		return []ast.Stmt{v}
	case *ast.IfStmt:
		if v.Init != nil {
			if len(r.recvChans(v.Init)) > 0 {
				die("%s: receive in if-init unsupported", r.pos(v))
			}
			r.exprs(v.Init)
		}
		r.exprs(v.Cond)
		pre := r.recvHooks(v.Cond)
		r.block(v.Body)
		if v.Else != nil {
			e := r.stmt(v.Else)
			if len(e) == 1 {
				v.Else = e[0]
			} else {
				v.Else = &ast.BlockStmt{List: e}
			}
		}
		return append(pre, v)
	case *ast.ForStmt:
		if len(r.recvChans(v.Init, v.Cond, v.Post)) > 0 {
			die("%s: receive in for header unsupported", r.pos(v))
		}
		r.exprs(v.Init)
		r.exprs(v.Cond)
		r.exprs(v.Post)
		r.block(v.Body)
		return []ast.Stmt{v}
	case *ast.RangeStmt:
		r.exprs(v.X)
		r.block(v.Body)
		return []ast.Stmt{v}
	case *ast.SwitchStmt:
		if len(r.recvChans(v.Init, v.Tag)) > 0 {
			die("%s: receive in switch header unsupported", r.pos(v))
		}
		r.exprs(v.Init)
		r.exprs(v.Tag)
		for _, c := range v.Body.List {
			cc := c.(*ast.CaseClause)
			for _, e := range cc.List {
				r.exprs(e)
			}
			cc.Body = r.stmts(cc.Body)
		}
		return []ast.Stmt{v}
	case *ast.TypeSwitchStmt:
		for _, c := range v.Body.List {
			cc := c.(*ast.CaseClause)
			cc.Body = r.stmts(cc.Body)
		}
		return []ast.Stmt{v}
	case *ast.SelectStmt:
		return []ast.Stmt{r.selectStmt(v)}
	case *ast.IncDecStmt, *ast.BranchStmt, *ast.EmptyStmt:
		return []ast.Stmt{s}
	}
	die("%s: unsupported statement %T", r.pos(s), s)
	return nil
}

func (r *rw) recvHooks(nodes ...ast.Node) []ast.Stmt {
	var pre []ast.Stmt
	for _, ch := range r.recvChans(nodes...) {
		pre = append(pre, r.hook("BeforeRecv", ch))
	}
	return pre
}

func (r *rw) selectStmt(s *ast.SelectStmt) ast.Stmt {
	r.needVS = true
	hasDefault := false
	var cases []ast.Expr
	sw := &ast.SwitchStmt{Body: &ast.BlockStmt{}}
	idx := 0
	// A channel operand that is not a plain variable / field (time.After(d),
	// a function result) is evaluated exactly once, as in a real select: it is
	// bound to a temporary that both vsched.Select and the case's own
	// communication use.
	var hoisted []ast.Stmt
	hoist := func(ch ast.Expr) ast.Expr {
		hasCall := false
		ast.Inspect(ch, func(n ast.Node) bool {
			if _, ok := n.(*ast.CallExpr); ok {
				hasCall = true
			}
			return !hasCall
		})
		if !hasCall {
			return ch
		}
		r.nTmp++
		id := ast.NewIdent(fmt.Sprintf("vschedSelCh%d", r.nTmp))
		hoisted = append(hoisted, &ast.AssignStmt{Lhs: []ast.Expr{id}, Tok: token.DEFINE, Rhs: []ast.Expr{ch}})
		return ast.NewIdent(id.Name)
	}
	for _, c := range s.Body.List {
		cc := c.(*ast.CommClause)
		body := r.stmts(cc.Body)
		if cc.Comm == nil {
			hasDefault = true
			sw.Body.List = append(sw.Body.List, &ast.CaseClause{List: nil, Body: body})
			continue
		}
		var comm ast.Stmt = cc.Comm
		switch cm := cc.Comm.(type) {
		case *ast.SendStmt:
			r.exprs(cm.Value)
			cm.Chan = hoist(cm.Chan)
			cases = append(cases, call(sel("vsched", "S"), cm.Chan))
		case *ast.ExprStmt:
			u, ok := cm.X.(*ast.UnaryExpr)
			if !ok || u.Op != token.ARROW {
				die("%s: odd select comm", r.pos(cm))
			}
			r.exprs(u.X)
			u.X = hoist(u.X)
			cases = append(cases, call(sel("vsched", "R"), u.X))
		case *ast.AssignStmt:
			u, ok := cm.Rhs[0].(*ast.UnaryExpr)
			if !ok || u.Op != token.ARROW {
				die("%s: odd select comm", r.pos(cm))
			}
			r.exprs(u.X)
			u.X = hoist(u.X)
			cases = append(cases, call(sel("vsched", "R"), u.X))
			// `case v := <-ch:` with v unused in the body would not compile as a
			// plain statement; keep Go happy with `_ = v`
			if cm.Tok == token.DEFINE {
				for _, l := range cm.Lhs {
					if id, ok := l.(*ast.Ident); ok && id.Name != "_" {
						body = append([]ast.Stmt{&ast.AssignStmt{Lhs: []ast.Expr{ast.NewIdent("_")}, Tok: token.ASSIGN, Rhs: []ast.Expr{ast.NewIdent(id.Name)}}}, body...)
					}
				}
			}
		default:
			die("%s: odd select comm %T", r.pos(cc), cm)
		}
		lit := &ast.BasicLit{Kind: token.INT, Value: strconv.Itoa(idx)}
		idx++
		sw.Body.List = append(sw.Body.List, &ast.CaseClause{List: []ast.Expr{lit}, Body: append([]ast.Stmt{comm}, body...)})
	}
	hd := "false"
	if hasDefault {
		hd = "true"
	}
	args := append([]ast.Expr{ast.NewIdent(hd)}, cases...)
	sw.Tag = call(sel("vsched", "Select"), args...)
	if len(hoisted) > 0 {
		return &ast.BlockStmt{List: append(hoisted, sw)}
	}
	return sw
}
