package vsched

import (
	"fmt"
	"reflect"
	"time"
)

// Channel hooks.  Real Go channels are kept; because exactly one controlled
// thread runs, the scheduler can decide readiness from len/cap (by reflection)
// plus a closed-set maintained by the Closed hook, and the real operation that
// follows the hook then cannot block.  Unbuffered channels that are sent on
// are not supported (hard error): all such channels in the rewritten code are
// buffered or close-only.

func chanPtr(ch interface{}) uintptr {
	v := reflect.ValueOf(ch)
	if v.Kind() != reflect.Chan {
		panic("vsched: not a channel")
	}
	return v.Pointer()
}

func (sc *sched) isClosed(ch interface{}) bool { return sc.closed[chanPtr(ch)] }

func sendReady(sc *sched, ch interface{}) bool {
	v := reflect.ValueOf(ch)
	if v.IsNil() {
		return false
	}
	if sc.isClosed(ch) {
		return true // the real send panics, as it should
	}
	return v.Len() < v.Cap()
}

func recvReady(sc *sched, ch interface{}) bool {
	v := reflect.ValueOf(ch)
	if v.IsNil() {
		return false
	}
	return v.Len() > 0 || sc.isClosed(ch)
}

type sendOp struct {
	sc *sched
	ch interface{}
}

func (o sendOp) Enabled() bool { return sendReady(o.sc, o.ch) }
func (o sendOp) String() string {
	v := reflect.ValueOf(o.ch)
	return fmt.Sprintf("send(%#x %s len=%d cap=%d)", chanPtr(o.ch), v.Type().Elem(), v.Len(), v.Cap())
}

type recvOp struct {
	sc *sched
	ch interface{}
}

func (o recvOp) Enabled() bool { return recvReady(o.sc, o.ch) }
func (o recvOp) String() string {
	v := reflect.ValueOf(o.ch)
	return fmt.Sprintf("recv(%#x %s len=%d cap=%d)", chanPtr(o.ch), v.Type().Elem(), v.Len(), v.Cap())
}

func checkAbort() {
	if s != nil && s.aborted {
		panic(abortSentinel{})
	}
}

// BeforeSend must precede `ch <- v`.
func BeforeSend(ch interface{}) {
	checkAbort()
	if !Active() {
		return
	}
	v := reflect.ValueOf(ch)
	if !v.IsNil() && v.Cap() == 0 {
		panic("vsched: send on an unbuffered channel is not modelled")
	}
	Point(sendOp{s, ch})
}

// BeforeRecv must precede a receive from ch.
func BeforeRecv(ch interface{}) {
	checkAbort()
	if !Active() {
		return
	}
	Point(recvOp{s, ch})
}

// Closed must precede close(ch).
func Closed(ch interface{}) {
	checkAbort()
	if !Active() {
		return
	}
	s.closed[chanPtr(ch)] = true
}

// SelCase is one communication clause of a select.
type SelCase struct {
	ch   interface{}
	send bool
}

// R and S build receive / send cases.
func R(ch interface{}) SelCase { return SelCase{ch, false} }
func S(ch interface{}) SelCase { return SelCase{ch, true} }

type selectOp struct {
	sc         *sched
	cases      []SelCase
	hasDefault bool
}

func (o selectOp) ready() []int {
	var r []int
	for i, c := range o.cases {
		if c.send {
			if sendReady(o.sc, c.ch) {
				r = append(r, i)
			}
		} else if recvReady(o.sc, c.ch) {
			r = append(r, i)
		}
	}
	return r
}
func (o selectOp) Enabled() bool { return o.hasDefault || len(o.ready()) > 0 }
func (o selectOp) String() string {
	return fmt.Sprintf("select(%d cases, default=%v)", len(o.cases), o.hasDefault)
}

// Select replaces a select statement: it returns the index of the clause to
// run (-1 = default).  When several clauses are ready the choice is a recorded
// nondeterministic choice that the explorer enumerates.
func Select(hasDefault bool, cases ...SelCase) int {
	checkAbort()
	if !Active() {
		// pass-through (set-up / tear-down only): poll
		o := selectOp{&sched{closed: map[uintptr]bool{}}, cases, hasDefault}
		for {
			if r := o.ready(); len(r) > 0 {
				return r[0]
			}
			if hasDefault {
				return -1
			}
			time.Sleep(200 * time.Microsecond)
		}
	}
	o := selectOp{s, cases, hasDefault}
	for _, c := range cases {
		if c.send {
			v := reflect.ValueOf(c.ch)
			if !v.IsNil() && v.Cap() == 0 {
				panic("vsched: select send on an unbuffered channel is not modelled")
			}
		}
	}
	Point(o)
	r := o.ready()
	switch len(r) {
	case 0:
		return -1
	case 1:
		return r[0]
	}
	return r[Choose(len(r), "select-ready")]
}

// Choose records an n-way nondeterministic data choice (cost-free for the
// preemption bound) and returns the chosen alternative.
func Choose(n int, label string) int {
	if !Active() || n <= 1 {
		return 0
	}
	sc := s
	i := len(sc.rec)
	choice := 0
	if i < len(sc.prefix) {
		choice = sc.prefix[i]
		if choice >= n {
			sc.exec.Diverged = fmt.Sprintf("point %d: prefix wants data choice %d of %d", i, choice, n)
			sc.abort()
			panic(abortSentinel{})
		}
	}
	if sc.maxPoints > 0 && i >= sc.maxPoints {
		sc.exec.Horizon = true
		sc.abort()
		panic(abortSentinel{})
	}
	ids := make([]int, n)
	for k := range ids {
		ids[k] = -(k + 1) // pseudo ids: data alternatives
	}
	sc.rec = append(sc.rec, PointRec{Enabled: ids, Choice: choice, RunningEnabled: false, Thread: sc.cur.id, Op: "choose " + label})
	return choice
}
