package vsched

import (
	"fmt"
	"reflect"
	"time"
)

// Channel hooks.  Real Go channels are kept; because exactly one controlled
// thread runs, the scheduler can decide readiness from len/cap (by reflection)
// plus a closed-set maintained by the Closed hook, and the real operation that
// follows the hook then cannot block.
//
// Unbuffered channels are a rendezvous.  A receiver (BeforeRecv, or a select
// without default that has a receive clause on the channel) is passive: its
// operation becomes enabled only when the channel is closed or a sender has
// claimed it.  A sender's operation is enabled once such a receiver is parked;
// when the scheduler picks the sender it claims a receiver (a recorded data
// choice if there are several), hands the token to it without a scheduling
// decision and goes on into its real send, which completes against the
// receiver's real receive; AfterSend then parks the sender again as an enabled
// thread, and every later scheduling decision first waits for that.  Not
// modelled (hard error, reported as a broken check, never as a verdict): a send
// clause of a select on an unbuffered channel, and a select with a default
// clause polling an unbuffered channel on which a sender is pending.

func chanPtr(ch interface{}) uintptr {
	v := reflect.ValueOf(ch)
	if v.Kind() != reflect.Chan {
		panic("vsched: not a channel")
	}
	return v.Pointer()
}

func (sc *sched) isClosed(ch interface{}) bool { return sc.closed[chanPtr(ch)] }

func sendReady(sc *sched, ch interface{}) bool {
	v := reflect.ValueOf(ch)
	if v.IsNil() {
		return false
	}
	if sc.isClosed(ch) {
		return true // the real send panics, as it should
	}
	return v.Len() < v.Cap()
}

func recvReady(sc *sched, ch interface{}) bool {
	v := reflect.ValueOf(ch)
	if v.IsNil() {
		return false
	}
	return v.Len() > 0 || sc.isClosed(ch)
}

type sendOp struct {
	sc *sched
	ch interface{}
}

func (o sendOp) Enabled() bool { return sendReady(o.sc, o.ch) }
func (o sendOp) String() string {
	v := reflect.ValueOf(o.ch)
	return fmt.Sprintf("send(%#x %s len=%d cap=%d)", chanPtr(o.ch), v.Type().Elem(), v.Len(), v.Cap())
}

type recvOp struct {
	sc   *sched
	ch   interface{}
	self *thread
}

func (o recvOp) Enabled() bool {
	return recvReady(o.sc, o.ch) || (o.self != nil && o.self.matched != 0 && o.self.matched == chanPtr(o.ch))
}

// usendOp is a pending send on an unbuffered channel.
type usendOp struct {
	sc   *sched
	ch   interface{}
	self *thread
}

func (o usendOp) Enabled() bool {
	return o.sc.isClosed(o.ch) || len(o.sc.receiversOn(o.ch, o.self)) > 0
}
func (o usendOp) String() string {
	return fmt.Sprintf("send(%#x %s unbuffered)", chanPtr(o.ch), reflect.ValueOf(o.ch).Type().Elem())
}

// receiversOn lists the parked threads that wait to receive from the unbuffered
// channel ch and have not been claimed yet.
func (sc *sched) receiversOn(ch interface{}, except *thread) []*thread {
	p := chanPtr(ch)
	var out []*thread
	for _, t := range sc.threads {
		if t == except || t.done || t.op == nil || t.matched != 0 {
			continue
		}
		switch o := t.op.(type) {
		case recvOp:
			if chanPtr(o.ch) == p {
				out = append(out, t)
			}
		case selectOp:
			for _, c := range o.cases {
				if !c.send && !reflect.ValueOf(c.ch).IsNil() && chanPtr(c.ch) == p {
					out = append(out, t)
					break
				}
			}
		}
	}
	return out
}

// pendingSenderOn reports whether some thread is parked in a send on the
// unbuffered channel ch.
func (sc *sched) pendingSenderOn(ch interface{}) bool {
	p := chanPtr(ch)
	for _, t := range sc.threads {
		if o, ok := t.op.(usendOp); ok && !t.done && chanPtr(o.ch) == p {
			return true
		}
	}
	return false
}
func (o recvOp) String() string {
	v := reflect.ValueOf(o.ch)
	return fmt.Sprintf("recv(%#x %s len=%d cap=%d)", chanPtr(o.ch), v.Type().Elem(), v.Len(), v.Cap())
}

func checkAbort() {
	if s != nil && s.aborted {
		panic(abortSentinel{})
	}
}

// BeforeSend must precede `ch <- v`; its result goes to AfterSend right after
// the send (nil unless the channel is unbuffered).
func BeforeSend(ch interface{}) interface{} {
	checkAbort()
	if !Active() {
		return nil
	}
	v := reflect.ValueOf(ch)
	if v.IsNil() || v.Cap() > 0 {
		Point(sendOp{s, ch})
		return nil
	}
	sc := s
	t := sc.cur
	Point(usendOp{sc, ch, t})
	if sc.isClosed(ch) {
		return nil // the real send panics, as it should
	}
	rs := sc.receiversOn(ch, t)
	if len(rs) == 0 {
		panic("vsched: rendezvous sender scheduled without a receiver; construct is not modelled")
	}
	r := rs[0]
	if len(rs) > 1 {
		r = rs[Choose(len(rs), "rendezvous-receiver")]
	}
	r.matched = chanPtr(ch)
	sc.inflight = append(sc.inflight, t)
	sc.cur = r
	r.wake <- struct{}{}
	return t
}

// AfterSend must follow `ch <- v` with BeforeSend's result.
func AfterSend(tok interface{}) {
	t, ok := tok.(*thread)
	if !ok || t == nil {
		return
	}
	sc := s
	if sc == nil {
		return
	}
	t.op = basicOp("sent (rendezvous)")
	t.parked <- struct{}{}
	<-t.wake
	if sc.aborted {
		panic(abortSentinel{})
	}
	t.op = nil
}

// BeforeRecv must precede a receive from ch.
func BeforeRecv(ch interface{}) {
	checkAbort()
	if !Active() {
		return
	}
	t := s.cur
	Point(recvOp{s, ch, t})
	t.matched = 0
}

// Closed must precede close(ch).
func Closed(ch interface{}) {
	checkAbort()
	if !Active() {
		return
	}
	s.closed[chanPtr(ch)] = true
}

// SelCase is one communication clause of a select.
type SelCase struct {
	ch   interface{}
	send bool
}

// R and S build receive / send cases.
func R(ch interface{}) SelCase { return SelCase{ch, false} }
func S(ch interface{}) SelCase { return SelCase{ch, true} }

type selectOp struct {
	sc         *sched
	cases      []SelCase
	hasDefault bool
	self       *thread
}

func (o selectOp) ready() []int {
	var r []int
	for i, c := range o.cases {
		if c.send {
			if sendReady(o.sc, c.ch) {
				r = append(r, i)
			}
		} else if recvReady(o.sc, c.ch) {
			r = append(r, i)
		}
	}
	return r
}
func (o selectOp) Enabled() bool {
	return o.hasDefault || len(o.ready()) > 0 || (o.self != nil && o.self.matched != 0)
}
func (o selectOp) String() string {
	return fmt.Sprintf("select(%d cases, default=%v)", len(o.cases), o.hasDefault)
}

// Select replaces a select statement: it returns the index of the clause to
// run (-1 = default).  When several clauses are ready the choice is a recorded
// nondeterministic choice that the explorer enumerates.
func Select(hasDefault bool, cases ...SelCase) int {
	checkAbort()
	if !Active() {
		// pass-through (set-up / tear-down only): poll
		o := selectOp{&sched{closed: map[uintptr]bool{}}, cases, hasDefault, nil}
		for {
			if r := o.ready(); len(r) > 0 {
				return r[0]
			}
			if hasDefault {
				return -1
			}
			time.Sleep(200 * time.Microsecond)
		}
	}
	t := s.cur
	o := selectOp{s, cases, hasDefault, t}
	for _, c := range cases {
		if c.send {
			v := reflect.ValueOf(c.ch)
			if !v.IsNil() && v.Cap() == 0 {
				panic("vsched: select send on an unbuffered channel is not modelled")
			}
		}
	}
	Point(o)
	if m := t.matched; m != 0 {
		// a sender claimed this thread: take the receive clause on that channel
		t.matched = 0
		for i, c := range cases {
			if !c.send && !reflect.ValueOf(c.ch).IsNil() && chanPtr(c.ch) == m {
				return i
			}
		}
		panic("vsched: matched select has no clause for the channel; construct is not modelled")
	}
	if hasDefault {
		for _, c := range cases {
			v := reflect.ValueOf(c.ch)
			if !c.send && !v.IsNil() && v.Cap() == 0 && !s.isClosed(c.ch) && s.pendingSenderOn(c.ch) {
				panic("vsched: select with default polling an unbuffered channel with a pending sender is not modelled")
			}
		}
	}
	r := o.ready()
	switch len(r) {
	case 0:
		return -1
	case 1:
		return r[0]
	}
	return r[Choose(len(r), "select-ready")]
}

// Choose records an n-way nondeterministic data choice (cost-free for the
// preemption bound) and returns the chosen alternative.
func Choose(n int, label string) int {
	if !Active() || n <= 1 {
		return 0
	}
	sc := s
	i := len(sc.rec)
	choice := 0
	if i < len(sc.prefix) {
		choice = sc.prefix[i]
		if choice >= n {
			sc.exec.Diverged = fmt.Sprintf("point %d: prefix wants data choice %d of %d", i, choice, n)
			sc.abort()
			panic(abortSentinel{})
		}
	}
	if sc.maxPoints > 0 && i >= sc.maxPoints {
		sc.exec.Horizon = true
		sc.abort()
		panic(abortSentinel{})
	}
	ids := make([]int, n)
	for k := range ids {
		ids[k] = -(k + 1) // pseudo ids: data alternatives
	}
	sc.rec = append(sc.rec, PointRec{Enabled: ids, Choice: choice, RunningEnabled: false, Thread: sc.cur.id, Op: "choose " + label})
	return choice
}
