// Package vsched is a cooperative scheduler plus a stateless DFS explorer with
// iterative preemption bounding (CHESS-style) for real Go code.
//
// Exactly one *controlled thread* runs at any time.  Code under test reaches the
// scheduler through hooked operations (the vsync / vtime shims and the channel /
// goroutine hooks inserted by engine/rewrite): each hooked operation calls
// Point(op) *before* performing the real operation.  The scheduler computes which
// parked threads have an enabled pending operation, takes the choice dictated by
// the replay prefix (else choice 0 = keep running the current thread if it is
// still enabled, otherwise the lowest thread id) and hands the token over.  A
// blocking operation is modelled by its Enabled() predicate, never by spinning:
// "no enabled thread although some thread is unfinished" is a deadlock.
//
// While no exploration is active (Active()==false) every hook is a pass-through
// to the real primitive, so set-up and tear-down code runs normally.
package vsched

import (
	"fmt"
	"runtime/debug"
	"strings"
	"sync"
	"time"
)

// Op is a pending operation of a parked thread.
type Op interface {
	Enabled() bool
	String() string
}

// simple always-enabled op
type basicOp string

func (b basicOp) Enabled() bool  { return true }
func (b basicOp) String() string { return string(b) }

// Yield is an always-enabled scheduling point.
func Yield(label string) { Point(basicOp(label)) }

type thread struct {
	id   int
	name string
	wake chan struct{}
	op   Op
	done bool
	// rendezvous on an unbuffered channel (see chan.go): matched is the channel
	// a pending sender has claimed this (receiving) thread on; parked is
	// signalled by a sender that has completed its real send and parked again.
	matched uintptr
	parked  chan struct{}
	// env threads model the environment (timers, remote peer): running one when
	// a program thread could run instead counts as a deviation like a preemption.
}

type abortSentinel struct{}

// PointRec is one recorded scheduling decision.
type PointRec struct {
	Enabled        []int // thread ids, canonical order (running thread first if enabled)
	Choice         int   // index into Enabled that was taken
	RunningEnabled bool  // the thread that reached the point could have continued
	Thread         int   // thread that reached the point (-1: thread exit)
	Op             string
}

// Exec is the record of one execution.
type Exec struct {
	Points   []PointRec
	Deadlock bool
	Blocked  []string // for a deadlock: "thread name: op" of every unfinished thread
	Horizon  bool     // the execution exceeded MaxPoints
	Panic    string   // a controlled thread panicked (value + stack)
	Diverged string   // replay prefix could not be followed (hard error)
	Zombies  bool     // some goroutine of the execution did not terminate after an abort
	// ExploreFrom is the index of the first point the explorer may branch at
	// (set by BeginExplore; 0 = from the start).
	ExploreFrom int
	ThreadCnt   int
}

// Choices returns the choice indices of the execution.
func (x *Exec) Choices() []int {
	c := make([]int, len(x.Points))
	for i, p := range x.Points {
		c[i] = p.Choice
	}
	return c
}

type sched struct {
	threads   []*thread
	cur       *thread
	prefix    []int
	rec       []PointRec
	maxPoints int
	aborted   bool
	exec      *Exec
	finished  chan struct{}
	finOnce   sync.Once
	live      int
	closed    map[uintptr]bool
	wg        sync.WaitGroup
	zombies   bool
	// senders that were released into their real (rendezvous) send and have
	// not parked again yet; every scheduling decision waits for them first
	inflight []*thread
}

var s *sched // the active exploration (nil: pass-through mode)

// Active reports whether an execution is being controlled and not yet aborted.
func Active() bool { return s != nil && !s.aborted }

// Cur returns the id of the running controlled thread (-1 when inactive).
func Cur() int {
	if s == nil || s.cur == nil {
		return -1
	}
	return s.cur.id
}

// RunOnce executes body as controlled thread 0 following the choice prefix and
// then choice 0 everywhere.  It returns when every controlled thread finished,
// or on deadlock / horizon / panic.
func RunOnce(prefix []int, maxPoints int, body func()) *Exec {
	if s != nil {
		panic("vsched: nested RunOnce")
	}
	sc := &sched{prefix: prefix, maxPoints: maxPoints, exec: &Exec{}, finished: make(chan struct{}), closed: map[uintptr]bool{}}
	t0 := &thread{id: 0, name: "main", wake: make(chan struct{}, 1), parked: make(chan struct{}, 1)}
	sc.threads = []*thread{t0}
	sc.cur = t0
	sc.live = 1
	s = sc
	sc.wg.Add(1)
	go sc.runThread(t0, body)
	t0.wake <- struct{}{}
	<-sc.finished
	// wait until every goroutine of this execution has unwound, so that no
	// zombie can reach a hook of the next execution
	done := make(chan struct{})
	go func() { sc.wg.Wait(); close(done) }()
	select {
	case <-done:
	case <-time.After(5 * time.Second):
		sc.exec.Zombies = true
	}
	sc.exec.Points = sc.rec
	sc.exec.ThreadCnt = len(sc.threads)
	s = nil
	return sc.exec
}

func (sc *sched) runThread(t *thread, f func()) {
	defer sc.wg.Done()
	<-t.wake
	defer func() {
		if r := recover(); r != nil {
			if _, ok := r.(abortSentinel); !ok {
				if sc.exec.Panic == "" {
					sc.exec.Panic = fmt.Sprintf("thread %s: %v\n%s", t.name, r, debug.Stack())
				}
				sc.abort()
				return
			}
			return
		}
	}()
	if sc.aborted {
		return
	}
	t.op = nil
	f()
	sc.exit(t)
}

// BeginExplore marks the end of a deterministic set-up prefix: the explorer
// branches only at scheduling points reached after this call.
func BeginExplore() {
	if Active() {
		s.exec.ExploreFrom = len(s.rec)
	}
}

type quiescOp struct {
	sc   *sched
	self *thread
}

func (o quiescOp) Enabled() bool {
	for _, t := range o.sc.threads {
		if t == o.self || t.done || t.op == nil {
			continue
		}
		if _, ok := t.op.(quiescOp); ok {
			continue
		}
		if t.op.Enabled() {
			return false
		}
	}
	return true
}
func (o quiescOp) String() string { return "wait-quiescent" }

// WaitQuiescent parks the calling thread until no other controlled thread can
// make progress (exact quiescence, no timing involved).
func WaitQuiescent() {
	checkAbort()
	if !Active() {
		return
	}
	Point(quiescOp{s, s.cur})
}

// Go starts f as a new controlled thread (pass-through: a plain goroutine).
func Go(name string, f func()) {
	checkAbort()
	if !Active() {
		go f()
		return
	}
	sc := s
	t := &thread{id: len(sc.threads), name: name, wake: make(chan struct{}, 1), parked: make(chan struct{}, 1), op: basicOp("start " + name)}
	sc.threads = append(sc.threads, t)
	sc.live++
	sc.wg.Add(1)
	go sc.runThread(t, f)
	Point(basicOp("spawn " + name))
}

func (sc *sched) enabled(running *thread) ([]int, bool) {
	var ids []int
	runEn := false
	if running != nil && !running.done && running.op != nil && running.op.Enabled() {
		ids = append(ids, running.id)
		runEn = true
	}
	for _, t := range sc.threads {
		if t == running || t.done || t.op == nil {
			continue
		}
		if t.op.Enabled() {
			ids = append(ids, t.id)
		}
	}
	return ids, runEn
}

func (sc *sched) abort() {
	sc.aborted = true
	// wake everybody so that parked goroutines unwind
	for _, t := range sc.threads {
		if !t.done {
			select {
			case t.wake <- struct{}{}:
			default:
			}
		}
	}
	sc.finOnce.Do(func() { close(sc.finished) })
}

func (sc *sched) pick(running *thread, exiting bool) *thread {
	for _, t := range sc.inflight {
		select {
		case <-t.parked:
		case <-time.After(10 * time.Second):
			// the matched receiver never performed its receive: the hooks
			// do not describe the code (engine limitation, not a verdict)
			panic("vsched: rendezvous send did not complete; construct is not modelled")
		}
	}
	sc.inflight = nil
	ids, runEn := sc.enabled(running)
	if len(ids) == 0 {
		sc.exec.Deadlock = true
		for _, t := range sc.threads {
			if !t.done {
				op := "running"
				if t.op != nil {
					op = t.op.String()
				}
				sc.exec.Blocked = append(sc.exec.Blocked, t.name+": "+op)
			}
		}
		return nil
	}
	i := len(sc.rec)
	choice := 0
	if i < len(sc.prefix) {
		choice = sc.prefix[i]
		if choice >= len(ids) {
			sc.exec.Diverged = fmt.Sprintf("point %d: prefix wants choice %d but only %d enabled", i, choice, len(ids))
			return nil
		}
	}
	if sc.maxPoints > 0 && i >= sc.maxPoints {
		sc.exec.Horizon = true
		return nil
	}
	rec := PointRec{Enabled: ids, Choice: choice, RunningEnabled: runEn, Thread: -1}
	if running != nil && !exiting {
		rec.Thread = running.id
		if running.op != nil {
			rec.Op = running.op.String()
		}
	}
	sc.rec = append(sc.rec, rec)
	return sc.threads[ids[choice]]
}

// Point is called by the running controlled thread before a hooked operation.
func Point(op Op) {
	checkAbort()
	if !Active() {
		return
	}
	sc := s
	t := sc.cur
	t.op = op
	n := sc.pick(t, false)
	if n == nil {
		sc.abort()
		panic(abortSentinel{})
	}
	if n == t {
		t.op = nil
		return
	}
	sc.cur = n
	n.wake <- struct{}{}
	<-t.wake
	if sc.aborted {
		panic(abortSentinel{})
	}
	t.op = nil
}

func (sc *sched) exit(t *thread) {
	if sc.aborted {
		return
	}
	t.done = true
	t.op = nil
	sc.live--
	if sc.live == 0 {
		sc.finOnce.Do(func() { close(sc.finished) })
		return
	}
	n := sc.pick(nil, true)
	if n == nil {
		sc.abort()
		return
	}
	sc.cur = n
	n.wake <- struct{}{}
}

// ---------------------------------------------------------------------------
// explorer

// Stats is what an exploration covered.
type Stats struct {
	Executions int
	Points     int // scheduling decisions over all executions (transitions)
	MaxPoints  int
	Bound      int  // preemption bound of this pass
	Complete   bool // every schedule with <= Bound preemptions was executed
	Outcomes   map[string]int
	MaxThreads int
	BranchedAt int
	Stopped    string
}

// Explorer enumerates all schedules of body with at most Bound preemptions.
type Explorer struct {
	Bound     int
	MaxPoints int
	// Body is executed once per schedule; it must build all state afresh.
	Body func()
	// After is called after each execution (still single threaded) to evaluate
	// the oracle; it returns an outcome label (for the distinct-outcome count)
	// and a violation description ("" if none).
	After func(x *Exec) (outcome, violation string)
	// Stop is polled between executions.
	Stop func() bool
	// DeviationBounded switches the cost measure from preemptions to deviations:
	// every non-canonical choice costs 1 (delay bounding), which also bounds
	// the cost-free wake-up-order and select-case alternatives.
	DeviationBounded bool
	// MaxExec caps the number of executions (0 = none).
	MaxExec int

	Stats      Stats
	Violations []Violation
}

// Violation is a failing schedule.
type Violation struct {
	Choices []int
	What    string
}

func preemptionsBefore(x *Exec, i int) int {
	n := 0
	for k := 0; k < i; k++ {
		p := x.Points[k]
		if p.RunningEnabled && p.Choice != 0 {
			n++
		}
	}
	return n
}

// Run performs the bounded DFS.
func (e *Explorer) Run() {
	e.Stats = Stats{Bound: e.Bound, Complete: true, Outcomes: map[string]int{}}
	e.explore(nil)
}

func (e *Explorer) stopped() bool {
	if e.Stats.Stopped != "" {
		return true
	}
	if e.Stop != nil && e.Stop() {
		e.Stats.Stopped = "time box"
	} else if e.MaxExec > 0 && e.Stats.Executions >= e.MaxExec {
		e.Stats.Stopped = "execution cap"
	}
	if e.Stats.Stopped != "" {
		e.Stats.Complete = false
		return true
	}
	return false
}

func (e *Explorer) explore(prefix []int) {
	if e.stopped() {
		return
	}
	x := RunOnce(prefix, e.MaxPoints, e.Body)
	e.Stats.Executions++
	e.Stats.Points += len(x.Points)
	if len(x.Points) > e.Stats.MaxPoints {
		e.Stats.MaxPoints = len(x.Points)
	}
	if x.ThreadCnt > e.Stats.MaxThreads {
		e.Stats.MaxThreads = x.ThreadCnt
	}
	if x.Diverged != "" {
		e.Violations = append(e.Violations, Violation{append([]int(nil), prefix...), "REPLAY-DIVERGENCE: " + x.Diverged})
		e.Stats.Complete = false
		return
	}
	outcome, viol := e.After(x)
	e.Stats.Outcomes[outcome]++
	if viol != "" {
		if len(e.Violations) < 20 {
			e.Violations = append(e.Violations, Violation{x.Choices(), viol})
		}
	}
	for i := len(prefix); i < len(x.Points); i++ {
		p := x.Points[i]
		if len(p.Enabled) <= 1 || i < x.ExploreFrom {
			continue
		}
		cost := preemptionsBefore(x, i)
		if p.RunningEnabled {
			cost++
		}
		if e.DeviationBounded {
			cost = 1
			for k := x.ExploreFrom; k < i; k++ {
				if x.Points[k].Choice != 0 {
					cost++
				}
			}
		}
		if cost > e.Bound {
			continue
		}
		for alt := 1; alt < len(p.Enabled); alt++ {
			np := append(append([]int(nil), x.Choices()[:i]...), alt)
			e.explore(np)
		}
	}
}

// Describe renders an execution's schedule compactly (for replay files).
func Describe(x *Exec) string {
	var sb strings.Builder
	for i, p := range x.Points {
		if p.Choice != 0 {
			fmt.Fprintf(&sb, "@%d:%s->T%d ", i, p.Op, p.Enabled[p.Choice])
		}
	}
	return sb.String()
}
