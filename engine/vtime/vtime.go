// Package vtime replaces the timer constructors of package time in rewritten
// code.  Under an active vsched exploration timers never fire on their own:
// they fire only when the harness (an environment thread) asks for it, so time
// is an explicit, enumerable environment event.  Outside an exploration the
// real timers are used.
package vtime

import (
	"time"

	"verif/engine/vsched"
)

// Ticker mirrors time.Ticker.
type Ticker struct {
	C    <-chan time.Time
	c    chan time.Time
	real *time.Ticker
	D    time.Duration
	dead bool
}

// Timer mirrors time.Timer.
type Timer struct {
	C     <-chan time.Time
	c     chan time.Time
	f     func()
	real  *time.Timer
	D     time.Duration
	armed bool
}

var (
	tickers []*Ticker
	timers  []*Timer
)

// Reset forgets all virtual timers (call at the start of each execution).
func ResetRegistry() { tickers, timers = nil, nil }

// Tickers / Timers return the virtual timers created in this execution, in
// creation order.
func Tickers() []*Ticker { return tickers }
func Timers() []*Timer   { return timers }

func NewTicker(d time.Duration) *Ticker {
	if !vsched.Active() {
		rt := time.NewTicker(d)
		return &Ticker{C: rt.C, real: rt, D: d}
	}
	c := make(chan time.Time, 1)
	t := &Ticker{C: c, c: c, D: d}
	tickers = append(tickers, t)
	return t
}

func (t *Ticker) Stop() {
	if t.real != nil {
		t.real.Stop()
	}
	t.dead = true
}

func (t *Ticker) Reset(d time.Duration) {
	if t.real != nil {
		t.real.Reset(d)
	}
	t.D = d
	t.dead = false
}

// Fire delivers one tick (dropped if the previous one was not consumed, as the
// real ticker does).  Must be called from a controlled thread.
func (t *Ticker) Fire() bool {
	if t.dead || t.c == nil {
		return false
	}
	select {
	case t.c <- time.Now():
		return true
	default:
		return false
	}
}

func AfterFunc(d time.Duration, f func()) *Timer {
	if !vsched.Active() {
		return &Timer{real: time.AfterFunc(d, f), D: d}
	}
	t := &Timer{f: f, D: d, armed: true}
	timers = append(timers, t)
	return t
}

func NewTimer(d time.Duration) *Timer {
	if !vsched.Active() {
		rt := time.NewTimer(d)
		return &Timer{C: rt.C, real: rt, D: d}
	}
	c := make(chan time.Time, 1)
	t := &Timer{C: c, c: c, D: d, armed: true}
	timers = append(timers, t)
	return t
}

func (t *Timer) Stop() bool {
	if t.real != nil {
		return t.real.Stop()
	}
	was := t.armed
	t.armed = false
	return was
}

func (t *Timer) Reset(d time.Duration) bool {
	if t.real != nil {
		return t.real.Reset(d)
	}
	was := t.armed
	t.armed = true
	t.D = d
	return was
}

// Fire expires the timer now (runs f on the calling controlled thread's behalf
// as a new controlled thread, like the runtime does, or sends on C).
func (t *Timer) Fire() bool {
	if !t.armed {
		return false
	}
	t.armed = false
	if t.f != nil {
		vsched.Go("timer", t.f)
		return true
	}
	select {
	case t.c <- time.Now():
	default:
	}
	return true
}

// After returns a channel that never becomes ready under exploration.
func After(d time.Duration) <-chan time.Time {
	if !vsched.Active() {
		return time.After(d)
	}
	return NewTimer(d).C
}

func Tick(d time.Duration) <-chan time.Time { return NewTicker(d).C }

// Sleep is a scheduling point under exploration (time does not pass).
func Sleep(d time.Duration) {
	if !vsched.Active() {
		time.Sleep(d)
		return
	}
	vsched.Yield("sleep")
}
