// Package vatomic replaces sync/atomic in rewritten files: the 32-bit
// operations (the connected / disconnect style flags that drive control flow)
// are scheduling points of vsched, the 64-bit ones (statistics counters) are
// passed through.
package vatomic

import (
	"sync/atomic"

	"verif/engine/vsched"
)

func AddInt32(addr *int32, delta int32) int32 {
	vsched.Yield("atomic.AddInt32")
	return atomic.AddInt32(addr, delta)
}
func LoadInt32(addr *int32) int32 {
	vsched.Yield("atomic.LoadInt32")
	return atomic.LoadInt32(addr)
}
func StoreInt32(addr *int32, v int32) {
	vsched.Yield("atomic.StoreInt32")
	atomic.StoreInt32(addr, v)
}
func SwapInt32(addr *int32, v int32) int32 {
	vsched.Yield("atomic.SwapInt32")
	return atomic.SwapInt32(addr, v)
}
func CompareAndSwapInt32(addr *int32, o, n int32) bool {
	vsched.Yield("atomic.CompareAndSwapInt32")
	return atomic.CompareAndSwapInt32(addr, o, n)
}
func AddUint32(addr *uint32, delta uint32) uint32 {
	vsched.Yield("atomic.AddUint32")
	return atomic.AddUint32(addr, delta)
}
func LoadUint32(addr *uint32) uint32 {
	vsched.Yield("atomic.LoadUint32")
	return atomic.LoadUint32(addr)
}
func StoreUint32(addr *uint32, v uint32) {
	vsched.Yield("atomic.StoreUint32")
	atomic.StoreUint32(addr, v)
}

func AddInt64(addr *int64, delta int64) int64       { return atomic.AddInt64(addr, delta) }
func LoadInt64(addr *int64) int64                   { return atomic.LoadInt64(addr) }
func StoreInt64(addr *int64, v int64)               { atomic.StoreInt64(addr, v) }
func AddUint64(addr *uint64, delta uint64) uint64   { return atomic.AddUint64(addr, delta) }
func LoadUint64(addr *uint64) uint64                { return atomic.LoadUint64(addr) }
func StoreUint64(addr *uint64, v uint64)            { atomic.StoreUint64(addr, v) }
func SwapInt64(addr *int64, v int64) int64          { return atomic.SwapInt64(addr, v) }
func CompareAndSwapInt64(a *int64, o, n int64) bool { return atomic.CompareAndSwapInt64(a, o, n) }

type Value = atomic.Value
type Bool = atomic.Bool
type Int32 = atomic.Int32
type Int64 = atomic.Int64
type Uint32 = atomic.Uint32
type Uint64 = atomic.Uint64
