// Package vsync is a drop-in replacement for the parts of package sync that
// btcd uses (Mutex, RWMutex, WaitGroup, Once, Cond, Pool passthrough).  Under an
// active vsched exploration every potentially blocking operation is announced
// to the scheduler first (vsched.Point) with an Enabled() predicate that models
// blocking; the real primitive is then taken as a backstop (it can never block
// because exactly one controlled thread runs and the model said it is free).
// Outside an exploration everything is a plain pass-through.
package vsync

import (
	"fmt"
	"sync"

	"verif/engine/vsched"
)

// YieldOnUnlock makes every Unlock/RUnlock a scheduling point as well (after
// the lock is released).  Needed when the window of interest lies between a
// release and code that performs no further hooked operation (e.g. a leveldb
// write); it roughly doubles the number of points, so harnesses opt in.
var YieldOnUnlock bool

func afterUnlock(what string) {
	if YieldOnUnlock && vsched.Active() {
		vsched.Yield(what)
	}
}

// Locker mirrors sync.Locker.
type Locker = sync.Locker

// Pool, Map are passed through unchanged (non-blocking).
type Pool = sync.Pool
type Map = sync.Map

// ---------------------------------------------------------------- Mutex

// Mutex models sync.Mutex.
type Mutex struct {
	real   sync.Mutex
	locked bool
}

type lockOp struct{ m *Mutex }

func (o lockOp) Enabled() bool  { return !o.m.locked }
func (o lockOp) String() string { return fmt.Sprintf("Mutex.Lock(%p)", o.m) }

// Lock acquires the mutex.
func (m *Mutex) Lock() {
	if vsched.Active() {
		vsched.Point(lockOp{m})
	}
	m.real.Lock()
	m.locked = true
}

// TryLock mirrors sync.Mutex.TryLock.
func (m *Mutex) TryLock() bool {
	if vsched.Active() {
		vsched.Yield("Mutex.TryLock")
	}
	if m.real.TryLock() {
		m.locked = true
		return true
	}
	return false
}

// Unlock releases the mutex.
func (m *Mutex) Unlock() {
	m.locked = false
	m.real.Unlock()
	afterUnlock("Mutex.Unlock")
}

// ---------------------------------------------------------------- RWMutex

// RWMutex models sync.RWMutex including writer preference: a writer first
// announces itself (from then on new readers block) and then waits for the
// current readers to leave.
type RWMutex struct {
	real    sync.RWMutex
	readers int
	writer  bool
	pending int // announced writers
}

type rlockOp struct{ m *RWMutex }

func (o rlockOp) Enabled() bool  { return !o.m.writer && o.m.pending == 0 }
func (o rlockOp) String() string { return fmt.Sprintf("RWMutex.RLock(%p)", o.m) }

type wlockOp struct{ m *RWMutex }

func (o wlockOp) Enabled() bool  { return !o.m.writer && o.m.readers == 0 }
func (o wlockOp) String() string { return fmt.Sprintf("RWMutex.Lock(%p)", o.m) }

// RLock takes a read lock.
func (m *RWMutex) RLock() {
	if vsched.Active() {
		vsched.Point(rlockOp{m})
	}
	m.real.RLock()
	m.readers++
}

// RUnlock releases a read lock.
func (m *RWMutex) RUnlock() {
	m.readers--
	m.real.RUnlock()
	afterUnlock("RWMutex.RUnlock")
}

// Lock takes the write lock.
func (m *RWMutex) Lock() {
	if vsched.Active() {
		vsched.Yield("RWMutex.Lock announce")
		m.pending++
		vsched.Point(wlockOp{m}) // an abort unwinds from here; the object is abandoned then
		m.pending--
	}
	m.real.Lock()
	m.writer = true
}

// Unlock releases the write lock.
func (m *RWMutex) Unlock() {
	m.writer = false
	m.real.Unlock()
	afterUnlock("RWMutex.Unlock")
}

// TryLock / TryRLock mirror the standard library.
func (m *RWMutex) TryLock() bool {
	if m.real.TryLock() {
		m.writer = true
		return true
	}
	return false
}
func (m *RWMutex) TryRLock() bool {
	if m.real.TryRLock() {
		m.readers++
		return true
	}
	return false
}

// RLocker returns a Locker for the read side.
func (m *RWMutex) RLocker() Locker { return (*rlocker)(m) }

type rlocker RWMutex

func (r *rlocker) Lock()   { (*RWMutex)(r).RLock() }
func (r *rlocker) Unlock() { (*RWMutex)(r).RUnlock() }

// ---------------------------------------------------------------- WaitGroup

// WaitGroup models sync.WaitGroup.
type WaitGroup struct {
	real sync.WaitGroup
	n    int
}

type wgOp struct{ w *WaitGroup }

func (o wgOp) Enabled() bool  { return o.w.n <= 0 }
func (o wgOp) String() string { return fmt.Sprintf("WaitGroup.Wait(%p)", o.w) }

func (w *WaitGroup) Add(d int) { w.n += d; w.real.Add(d) }
func (w *WaitGroup) Done()     { w.n--; w.real.Done() }
func (w *WaitGroup) Wait() {
	if vsched.Active() {
		vsched.Point(wgOp{w})
	}
	w.real.Wait()
}

// Go mirrors sync.WaitGroup.Go.
func (w *WaitGroup) Go(f func()) {
	w.Add(1)
	vsched.Go("wg.Go", func() {
		defer w.Done()
		f()
	})
}

// ---------------------------------------------------------------- Once

// Once models sync.Once (Do blocks while another thread is inside Do).
type Once struct {
	m    Mutex
	done bool
}

func (o *Once) Do(f func()) {
	if o.done {
		return
	}
	o.m.Lock()
	defer o.m.Unlock()
	if !o.done {
		defer func() { o.done = true }()
		f()
	}
}

// ---------------------------------------------------------------- Cond

// Cond models sync.Cond.
type Cond struct {
	L       Locker
	real    *sync.Cond
	waiters []*condWaiter
}

type condWaiter struct{ signalled bool }

type condOp struct{ w *condWaiter }

func (o condOp) Enabled() bool  { return o.w.signalled }
func (o condOp) String() string { return "Cond.Wait" }

// NewCond mirrors sync.NewCond.
func NewCond(l Locker) *Cond { return &Cond{L: l, real: sync.NewCond(l)} }

func (c *Cond) Wait() {
	if !vsched.Active() {
		c.real.Wait()
		return
	}
	w := &condWaiter{}
	c.waiters = append(c.waiters, w)
	c.L.Unlock()
	vsched.Point(condOp{w})
	c.L.Lock()
}

func (c *Cond) Signal() {
	if len(c.waiters) > 0 {
		c.waiters[0].signalled = true
		c.waiters = c.waiters[1:]
	}
	c.real.Signal()
}

func (c *Cond) Broadcast() {
	for _, w := range c.waiters {
		w.signalled = true
	}
	c.waiters = nil
	c.real.Broadcast()
}

// OnceFunc etc. are not used by btcd.
